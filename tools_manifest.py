#!/venv/bin/python
"""Regenerates MANIFEST.json from the table below (single source of truth for the interface)."""
import json
import os

HERE = os.path.dirname(os.path.abspath(__file__))

# id -> (level, technique, level text, level note, design ref)
CHECKS = {}


def add(pid, level, technique, text, note, ref):
    CHECKS[pid] = (level, technique, text, note, ref)


exec(open(os.path.join(HERE, 'manifest_table.py')).read())

ALL = ['C%02d' % i for i in range(1, 21)]
checks = []
for pid in ALL:
    if pid not in CHECKS:
        continue
    level, technique, text, note, ref = CHECKS[pid]
    checks.append({
        'property_id': pid,
        'quick_cmd': f'./check {pid} --tier quick',
        'thorough_cmd': f'./check {pid} --tier thorough',
        'evidence_file': f'/verif/evidence/{pid}.json',
        'replay_cmd_template': f'./check {pid} --replay {{path}}',
        'engine': 'explorer',
        'level_claimed': {'category': level, 'text': text, 'design_ref': ref},
        'level_note': note,
        'technique': technique,
    })
na = [{'property_id': pid, 'reason': NOT_YET.get(pid, 'check not built yet in this session; see DESIGN.md section 4 for the plan')}
      for pid in ALL if pid not in CHECKS]
man = {
    'version': 1,
    'setup_cmd': 'cd /verif && /venv/bin/python -B -c "import sys; sys.path.insert(0, \'/verif\'); import vlib.core as c; c.load(); print(\'ok\', c.tree_id())"',
    'hooks': {
        'guard': 'SQLPARSE_VERIF',
        'enable': 'no source hooks: the explorers drive /repo\'s working tree directly (sys.path[0]=/repo, sys.settrace, harness-owned lock and recursion limit)',
        'baseline_off_cmd': 'cd /repo && /venv/bin/python -m pytest -ra -q -p no:cacheprovider --timeout=900 --continue-on-collection-errors',
        'source_commits': [],
        'add_only': True,
    },
    'engines': [
        {'name': 'explorer', 'path': '/verif/check', 'serves_properties': sorted(CHECKS),
         'kind_free_text': 'hand-written explicit-state / stateless bounded-exhaustive explorers in Python running the real sqlparse code (string spaces, derivation spaces, product automata, schedules, histories, fault points)'},
    ],
    'checks': checks,
    'not_applicable': na,
    'notes': NOTES,
}
with open(os.path.join(HERE, 'MANIFEST.json'), 'w') as fh:
    json.dump(man, fh, indent=1)
    fh.write('\n')
print('checks:', [c['property_id'] for c in checks], 'not claimed:', [n['property_id'] for n in na])
