#!/venv/bin/python
"""tools_seed.py <PROP> <k> [--checks C01,C02] [--tier quick]

Confirms a sub-agent's change (/tmp/wt/<PROP>-out/change<k>.diff + demo<k>.py) in a scratch copy of
/repo's HEAD: suite passes with the change; demo exits 1 with it and 0 without. Then runs the named
checks (default: the property's own) against the changed tree and files everything under
/verif/seeded/<PROP>-<k>/ (patch.diff, demo.py, note.txt, meta.json). Scratch copy is removed.
Also: tools_seed.py --rerun <dir> [--checks ..] [--tier ..] re-runs the checks for a filed change.
"""
import argparse
import json
import os
import shutil
import subprocess
import sys
import tempfile
import time

PY = '/venv/bin/python'


def sh(cmd, cwd=None, env=None, timeout=3600):
    e = dict(os.environ)
    e.update(env or {})
    r = subprocess.run(cmd, cwd=cwd, env=e, capture_output=True, text=True, timeout=timeout)
    return r.returncode, r.stdout + r.stderr


def scratch_copy():
    d = tempfile.mkdtemp(prefix='vseed.', dir='/tmp')
    repo = os.path.join(d, 'repo')
    os.makedirs(repo)
    files = subprocess.run(['git', '-C', '/repo', 'ls-files', '-z'], capture_output=True).stdout.split(b'\0')
    for f in files:
        if not f:
            continue
        f = f.decode()
        dst = os.path.join(repo, f)
        os.makedirs(os.path.dirname(dst), exist_ok=True)
        shutil.copy2(os.path.join('/repo', f), dst)
    return d, repo


def apply_patch(repo, patch):
    rc, out = sh(['patch', '-p1', '-s', '--no-backup-if-mismatch', '-F', '3', '-i', patch], cwd=repo)
    return rc == 0, out


def suite(repo):
    rc, out = sh([PY, '-B', '-m', 'pytest', '-q', '-p', 'no:cacheprovider', '-x'], cwd=repo,
                 env={'PYTHONPATH': repo})
    tail = [ln for ln in out.strip().splitlines() if 'passed' in ln or 'failed' in ln or 'error' in ln]
    return rc == 0, (tail[-1] if tail else out[-200:])


def run_checks(repo, outdir, checks, tier):
    res = {}
    for c in checks:
        t = time.time()
        rc, out = sh(['./check', c, '--tier', tier], cwd='/verif',
                     env={'VERIF_REPO': repo, 'VERIF_OUT': outdir})
        viol = [ln for ln in out.splitlines() if ln.startswith('VIOLATION')]
        first = None
        if viol:
            path = viol[0].split('replay=')[1].strip()
            try:
                d = json.load(open(path))
                first = {k: d.get(k) for k in ('kind', 'sig', 'text', 'opts', 'detail') if k in d}
                if isinstance(first.get('detail'), str):
                    first['detail'] = first['detail'][:300]
            except Exception as e:  # noqa
                first = {'error': repr(e)}
        res[c] = {'exit': rc, 'violations': len(viol), 'wall_s': round(time.time() - t, 1),
                  'first': first, 'tier': tier,
                  'harness_errors': [ln for ln in out.splitlines() if ln.startswith('HARNESS-ERROR')][:3]}
        print(f'  check {c} tier={tier}: exit={rc} violations={len(viol)} first={json.dumps(first)[:260]}')
        if rc not in (0, 1):
            print(out[-1500:])
    return res


def main():
    ap = argparse.ArgumentParser()
    ap.add_argument('prop', nargs='?')
    ap.add_argument('k', nargs='?')
    ap.add_argument('--checks')
    ap.add_argument('--tier', default='quick')
    ap.add_argument('--rerun')
    ap.add_argument('--src')
    ap.add_argument('--name')
    args = ap.parse_args()
    if args.rerun:
        dest = os.path.abspath(args.rerun)
        meta = json.load(open(os.path.join(dest, 'meta.json')))
        prop = meta['property']
    else:
        prop, k = args.prop.upper(), args.k
        src = args.src or f'/tmp/wt/{prop}-out'
        dest = f'/verif/seeded/{args.name or (prop + "-" + k)}'
        os.makedirs(dest, exist_ok=True)
        shutil.copy2(f'{src}/change{k}.diff', f'{dest}/patch.diff')
        shutil.copy2(f'{src}/demo{k}.py', f'{dest}/demo.py')
        if os.path.exists(f'{src}/note{k}.txt'):
            shutil.copy2(f'{src}/note{k}.txt', f'{dest}/note.txt')
        meta = {'property': prop, 'origin': f'independent sub-agent, worktree of /repo at the pinned commit, no access to /verif'}
    checks = (args.checks or prop).split(',')
    d, repo = scratch_copy()
    try:
        rc0, out0 = sh([PY, '-B', f'{dest}/demo.py', repo])
        ok, out = apply_patch(repo, f'{dest}/patch.diff')
        if not ok:
            print('PATCH DOES NOT APPLY to current /repo HEAD:', out[-400:])
            meta['confirmed'] = False
            meta['problem'] = 'patch does not apply to the repaired tree'
            json.dump(meta, open(f'{dest}/meta.json', 'w'), indent=1)
            return 3
        s_ok, s_line = suite(repo)
        rc1, out1 = sh([PY, '-B', f'{dest}/demo.py', repo])
        head = subprocess.run(['git', '-C', '/repo', 'rev-parse', '--short', 'HEAD'], capture_output=True, text=True).stdout.strip()
        meta.update({'repo_head': head, 'suite_with_change': s_line, 'suite_passes': s_ok,
                     'demo_exit_unchanged': rc0, 'demo_exit_changed': rc1,
                     'confirmed': bool(s_ok and rc0 == 0 and rc1 == 1),
                     'demo_output_changed': out1.strip()[-600:]})
        print(f'{prop} suite={s_line!r} demo unchanged={rc0} changed={rc1} confirmed={meta["confirmed"]}')
        if rc0 != 0:
            print('  demo on unchanged tree says:', out0.strip()[-400:])
        outdir = os.path.join(d, 'out')
        res = run_checks(repo, outdir, checks, args.tier)
        meta.setdefault('checks', {}).update(res)
        meta['detected_by'] = sorted(c for c, r in meta['checks'].items() if r['exit'] == 1)
        json.dump(meta, open(f'{dest}/meta.json', 'w'), indent=1)
    finally:
        shutil.rmtree(d, ignore_errors=True)
    return 0


if __name__ == '__main__':
    sys.exit(main())
