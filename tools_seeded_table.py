#!/venv/bin/python
"""Prints the markdown table of seeded changes (from seeded/*/meta.json) for DESIGN.md."""
import glob
import json
import os

rows = []
for d in sorted(glob.glob('/verif/seeded/*/')):
    m = json.load(open(d + 'meta.json'))
    name = os.path.basename(d.rstrip('/'))
    note = ''
    if os.path.exists(d + 'note.txt'):
        note = open(d + 'note.txt').read().strip().splitlines()[0][:140]
    det = ', '.join(f"{c} ({r.get('first', {}).get('kind') if r.get('first') else ''})" for c, r in m.get('checks', {}).items() if r['exit'] == 1)
    missed = ', '.join(c for c, r in m.get('checks', {}).items() if r['exit'] == 0)
    status = m.get('status') or ('confirmed' if m.get('confirmed') else 'NOT CONFIRMED')
    rows.append(f"| {name} | {note.replace('|', '/')} | {status} | {det or '-'} | {missed or '-'} |")
print('| id | change (first line of the author\'s note) | confirmed by me | caught by (first violation kind) | run but silent |')
print('|---|---|---|---|---|')
print('\n'.join(rows))
