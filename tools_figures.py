#!/venv/bin/python
"""Prints a markdown table of the measured figures in evidence/*.json (for DESIGN.md section 4)."""
import glob
import json

print('| id | tier | level | evaluations / states | distinct non-trivial / transitions | traces validated | known findings hit | wall s |')
print('|---|---|---|---|---|---|---|---|')
for f in sorted(glob.glob('/verif/evidence/C*.json')):
    d = json.load(open(f))
    c = d['coverage']
    a = c.get('evaluations', c.get('states'))
    b = c.get('distinct_nontrivial', c.get('transitions'))
    t = c.get('traces_validated_against_impl', '')
    kf = ', '.join(sorted(c.get('known_findings_hit', {}))) or '-'
    print(f"| {d['property_id']} | {d['tier']} | {d['level']} | {a:,} | {b:,} | {t if t == '' else format(t, ',')} | {kf} | {d['wall_s']:.0f} |")
