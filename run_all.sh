#!/bin/bash
# usage: run_all.sh [quick|thorough] [IDs...]  - runs the registered checks one after the other
tier=${1:-quick}; shift
ids=${@:-$(/venv/bin/python -c "import json;print(' '.join(c['property_id'] for c in json.load(open('/verif/MANIFEST.json'))['checks']))")}
rc_all=0
for c in $ids; do
  out=$(cd /verif && ./check $c --tier $tier 2>&1); rc=$?
  echo "$out" | grep -E '^(VIOLATION|HARNESS-ERROR|Traceback)' | head -5
  echo "$out" | grep -c '^KNOWN-FINDING' | xargs echo "  known-finding lines:"
  echo "$out" | tail -1 | cut -c1-200
  [ $rc -eq 0 ] || { echo "  EXIT $rc for $c"; rc_all=1; }
done
exit $rc_all
