#!/bin/bash
# re-validates every filed seeded change against the current checks (quick tier); prints one line per change
cd /verif
for d in seeded/*/; do
  n=$(basename $d)
  checks=$(/venv/bin/python -c "
import json; m=json.load(open('$d/meta.json')); c=[k for k,v in m.get('checks',{}).items() if v['exit']==1] or [m['property']]; print(','.join(c))")
  out=$(timeout 1500 ./tools_seed.py --rerun $d --checks $checks 2>&1 | grep -v WARNING)
  det=$(echo "$out" | grep -c "exit=1")
  conf=$(echo "$out" | grep -o "confirmed=[A-Za-z]*" | head -1)
  echo "$n checks=$checks $conf detected_by=$det"
done
