"""C01 Lexer total and lossless - E1 over code-point classes and lexical fragments."""
import io

from vlib import core, e1, oracles, spaces, charclass


def _spaces(tier):
    from sqlparse import keywords
    one, two, info = charclass.representatives(oracles.rule_sources())
    # second representative for every class that has more than one member (word classes, '!~', ',;')
    cls2 = list(one) + [r[1] for r in two if len(r) > 1]
    if tier == 'quick':
        sp = [('CLS<=3', one, 3, ''), ('CLS2<=2', cls2, 2, ''),
              ('LEX<=3 raw', spaces.LEX, 3, ''), ('LEX<=3 blank', spaces.LEX, 3, ' ')]
    else:
        sp = [('CLS<=4', one, 4, ''), ('CLS2<=3', cls2, 3, ''),
              ('LEX<=4 raw', spaces.LEX, 4, ''), ('LEX<=3 blank', spaces.LEX, 3, ' ')]
    sp.append(('SPC<=3 raw', spaces.SPC, 3, ''))
    return sp, info


def _setup():
    from sqlparse import lexer
    ref = oracles.RefLexer()
    inst = lexer.Lexer.get_default_instance()
    return ref, lexer, inst


def _evaluate(text, frags, space, acc, state):
    ref, lexer, inst = state
    bad = oracles.check_c01(ref, text, lexer.tokenize)
    if bad is None:
        bad = oracles.check_c01(ref, text, inst.get_tokens)
        if bad is not None:
            bad = (bad[0], 'get_tokens:' + str(bad[1]), bad[2])
    if bad is None and (acc.n % 97 == 0):
        bad = _forms(ref, text, lexer)
    exp, _ = ref.tokens(text)
    nerr = sum(1 for tt, _ in exp if tt is ref.T.Error)
    acc.case(text, len(exp) >= 2, outcome='error-token' if nerr else 'no-error-token',
             sample=text)
    if bad:
        acc.violation(e1.viol(bad[0], str(bad[1]), bad[2], text, frags, space))


def _forms(ref, text, lexer):
    """bytes / stream forms decode exactly once and then behave like the str form."""
    try:
        data = text.encode('utf-8')
    except UnicodeEncodeError:
        return None
    want = list(lexer.tokenize(text))
    for label, arg, kw in (('utf8-bytes', data, {}), ('utf8-bytes+enc', data, {'encoding': 'utf-8'}),
                           ('stream', io.StringIO(text), {})):
        try:
            got = list(lexer.tokenize(arg, **kw))
        except Exception as e:  # noqa
            return ('lexer-exception', label + ':' + oracles.crash_site(e), repr(e)[:200])
        if got != want:
            return ('form-differs', label, repr(got)[:200])
    return None


def custom_configs():
    """(label, rule table, keyword tables) of a caller's own Lexer objects: the property's clause "a character that
    no lexical rule recognises becomes a one-character Error token" is a statement about whatever table is active"""
    from sqlparse import keywords as K, tokens as T
    return [
        ('cleared', [], []),
        ('words-and-blanks', [(r'\w+', T.Name), (r'\s', T.Whitespace)], []),
        ('default-without-operator-rules', K.SQL_REGEX[:-3], [K.KEYWORDS]),
        ('default-head-and-tail', K.SQL_REGEX[:30] + K.SQL_REGEX[-5:], [{'FOO': T.Keyword, 'SELECT': T.Name}, K.KEYWORDS_COMMON]),
        ('strings-only', [(r"'(''|[^'])*'", T.String.Single), (K.SQL_REGEX[-6][0], K.PROCESS_AS_KEYWORD)], [K.KEYWORDS_ORACLE]),
    ]


def custom_tables(tier):
    import itertools
    from sqlparse import lexer
    alpha = spaces.LEX + ['é', '\x00', '\ud800', '{', '~', '\\']
    n = 2
    texts = [''.join(t) for k in range(1, n + 1) for t in itertools.product(alpha, repeat=k)]
    info = {'configurations': [], 'texts_each': len(texts), 'cases': 0}
    viols = []
    for label, table, tables in custom_configs():
        lx = lexer.Lexer()
        lx.clear()
        lx.set_SQL_REGEX(table)
        for tb in tables:
            lx.add_keywords(tb)
        ref = oracles.RefLexer(table, tables)
        errs = 0
        for t in texts:
            bad = oracles.check_c01(ref, t, lx.get_tokens)
            info['cases'] += 1
            if bad and errs < 3:
                errs += 1
                viols.append({'kind': bad[0], 'sig': f'own-lexer:{label}|{bad[1]}'[:100], 'detail': bad[2], 'text': t,
                              'config': label, 'size': len(t)})
        info['configurations'].append(label)
    return info, viols


def casefold_block():
    """letters that re.IGNORECASE identifies with an ASCII letter although they are not ASCII (U+0130, U+0131, U+017F,
    U+212A) inside every multi-word keyword phrase and every dictionary word: code next to the regexes (upper(),
    table lookups) sees them differently than the rule that matched"""
    import re
    from sqlparse import keywords as K
    equiv = {}
    for c in 'abcdefghijklmnopqrstuvwxyz':
        rx = re.compile(c, re.IGNORECASE | re.UNICODE)
        equiv[c] = [chr(cp) for cp in range(0x80, 0x30000) if rx.fullmatch(chr(cp))]
    phrases = ['not null', 'union all', 'double precision', 'group by', 'order by', 'primary key', 'handler for',
               'end if', 'end loop', 'end while', 'end case', 'create or replace', 'left outer join', 'natural join',
               'cross join', 'full outer join', 'nulls first', 'asc nulls last', 'desc nulls first', 'go 2',
               "at time zone 'x'", 'not like', 'not ilike', 'not rlike', 'not regexp', 'is not null',
               'lateral view explode', 'lateral view outer inline', 'set(', 'x in (1)', 'case when', 'values (1)',
               'using (a)', 'from t as u', 'character set x', 'for each row', 'start transaction']
    words = sorted({w.lower() for tb in (K.KEYWORDS, K.KEYWORDS_COMMON, K.KEYWORDS_ORACLE, K.KEYWORDS_MYSQL, K.KEYWORDS_PLPGSQL,
                                         K.KEYWORDS_HQL, K.KEYWORDS_MSACCESS, K.KEYWORDS_SNOWFLAKE, K.KEYWORDS_BIGQUERY)
                    for w in tb if w.isidentifier()})
    texts = []
    for base in phrases + words:
        for i, ch in enumerate(base):
            for alt in equiv.get(ch, []):
                for variant in (base[:i] + alt + base[i + 1:], (base[:i] + alt + base[i + 1:]).upper().replace(alt.upper(), alt)):
                    texts.append(variant)
                    texts.append('a ' + variant + ' b')
    return {'equivalents': {k: [f'U+{ord(x):04X}' for x in v] for k, v in equiv.items() if v}, 'texts': len(texts)}, texts


LAZY_TEXTS = ['a b', "c 'd'", 'select 1', "x -- y\nz", '$$q$$;', 'é ', '"', '']


def lazy_streams(tier):
    """tokenize() and get_tokens() are generators: several may be alive at once"""
    import itertools
    from vlib import gensched
    from sqlparse import lexer

    def tok(t):
        return (oracles.tname(t[0]), t[1])
    facts = [(f'tokenize({t!r})', (lambda t=t: lexer.tokenize(t))) for t in LAZY_TEXTS] + \
            [(f'get_tokens({t!r})', (lambda t=t: lexer.Lexer.get_default_instance().get_tokens(t))) for t in LAZY_TEXTS[:3]]
    refs = [gensched.alone(f, tok) for _, f in facts]
    combos = list(itertools.combinations_with_replacement(range(len(facts)), 2))
    short = [0, 1, 5, 6]                 # triples: the streams of at most three tokens
    combos += list(itertools.combinations_with_replacement(short if tier == 'quick' else short + [2, 4], 3))
    info = {'tasks': [n for n, _ in facts], 'combinations': len(combos), 'schedules': 0, 'steps': 0}
    viols = []

    def work(chunk):
        return [(combo, gensched.explore_checked([facts[i][1] for i in combo], [tok] * len(combo), [refs[i] for i in combo]))
                for combo in chunk]
    for combo, st in [x for ch in core.pmap(work, core.chunked(combos, core.NPROC * 2)) for x in ch]:
        info['schedules'] += st['schedules']
        info['steps'] += st['steps']
        for sched, ti, got, exp in st['violations'][:2]:
            viols.append({'kind': 'not-lossless', 'sig': 'two-live-streams', 'combo': list(combo), 'schedule': list(sched),
                          'text': ' | '.join(facts[i][0] for i in combo),
                          'detail': f'stream {ti} yielded {got!r:.150} instead of {exp!r:.150} under schedule {list(sched)}',
                          'size': len(sched)})
    return info, viols


def run(tier, seed):
    sp, info = _spaces(tier)
    ref = oracles.RefLexer()
    model_errors = []
    if ref.table_problem:
        model_errors.append(ref.table_problem)
    viols = []
    for (rx, _), w in zip([(r.pattern, None) for r, _ in ref.rules], ref.min_width):
        if w < 1:
            viols.append({'kind': 'zero-width-rule', 'sig': rx[:60], 'detail': 'getwidth()[0] == 0',
                          'text': rx, 'size': 0})
    allcp = [chr(c) for c in range(0x110000)]
    ctx = ['a'] if tier == 'quick' else ['a', ' ', "'", '1', '-']
    extra = [('ALLCP alone and in context', [(c,) for c in allcp] + [(c, x) for x in ctx for c in allcp] + [(x, c) for x in ctx for c in allcp], '')]
    merged, sizes = e1.run(sp, _evaluate, seed, bits=27 if tier == 'thorough' else 24, setup=_setup,
                           extra_cases=extra)
    lz, lzv = lazy_streams(tier)
    ci, cv = custom_tables(tier)
    lzv += cv
    cf, cf_texts = casefold_block()
    from sqlparse import lexer as _lexer
    seen = 0
    for t in cf_texts:
        bad = oracles.check_c01(ref, t, _lexer.tokenize)
        if bad and seen < 5:
            seen += 1
            lzv.append({'kind': bad[0], 'sig': 'casefold-equivalent|' + str(bad[1])[:60], 'detail': bad[2], 'text': t, 'size': len(t)})
    cov = {
        'evaluations': merged['n'] + lz['schedules'] + ci['cases'] + cf['texts'],
        'own_lexer_configurations': ci, 'casefold_equivalents': cf,
        'distinct_nontrivial': merged['distinct'],
        'lazy_streams': lz,
        'rule': 'every string of 1..n fragments over each alphabet (CLS: one representative per '
                'code-point equivalence class of the current rule set, so every Python str of that '
                'length is covered for the regex layer; CLS2: second representative for multi-member '
                'classes; LEX: colliding lexical fragments, raw and blank-joined). Non-trivial = the '
                'reference scan yields at least two tokens; distinct = distinct texts (hashed bitmap, '
                'lower bound).',
        'samples': merged['samples'][:8],
        'exhaustive': True,
        'spaces': sizes,
        'charclasses': {'atoms': info['atoms'], 'classes': info['classes']},
        'outcomes': dict(merged['outcomes']),
        'oracle': 'tokenize() and Lexer.get_default_instance().get_tokens(): no exception; values '
                  'non-empty; concatenation == input; Error tokens have length 1; token list equals a '
                  'reference first-match-wins scan that re-applies each compiled rule of '
                  'keywords.SQL_REGEX at each position and types words by its own ordered lookup in '
                  'the nine tables; every 97th case also as utf-8 bytes / bytes+encoding / StringIO; '
                  'lazy_streams: two or three token streams held at the same time and advanced in every order '
                  '(vlib/gensched.py) each yield exactly what they yield alone; own_lexer_configurations: the same '
                  'oracle with a reference scan over the caller\'s own rule and keyword tables; casefold_equivalents: '
                  'non-ASCII letters that IGNORECASE identifies with an ASCII letter, substituted into every keyword '
                  'phrase and dictionary word',
        'bound': {'tier': tier, 'max_code_points': 4 if tier == 'thorough' else 3},
    }
    for v in lzv:
        merged['viol_count'][(v['kind'], v['sig'])] += 1
    return core.Result('C01', 'exploration', cov, violations=viols + merged['viol'] + lzv,
                       viol_count=merged['viol_count'], model_errors=model_errors,
                       assumptions=['CPython re matches as documented', 'class partition argument of '
                                    'DESIGN 2.1 (same membership vector => indistinguishable to every rule)',
                                    'strings longer than the bound are covered only by the locality '
                                    'argument: the scan decision at pos depends on text[pos-1] and the suffix'])


def replay(case):
    if case.get('sig') == 'two-live-streams':
        _, v = lazy_streams('quick')
        hit = [x for x in v if x['combo'] == case['combo']]
        return {'violation': bool(hit), 'observed': hit[:1]}
    ref = oracles.RefLexer()
    from sqlparse import lexer
    bad = oracles.check_c01(ref, case['text'], lexer.tokenize)
    return {'text': case['text'], 'violation': bool(bad), 'observed': bad}
