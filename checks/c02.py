"""C02 parse() is text-preserving - E1 over structural fragments."""
from vlib import core, e1, oracles
from checks import _e1parse


def _setup():
    import sqlparse
    return sqlparse


def _evaluate(text, frags, space, acc, sqlparse):
    try:
        stmts = sqlparse.parse(text)
    except sqlparse.exceptions.SQLParseError:
        acc.case(text, False, outcome='SQLParseError')
        return
    except Exception as e:  # noqa  (totality is C07's business; here it still fails the round trip)
        acc.case(text, False, outcome='exception')
        acc.violation(e1.viol('parse-exception', oracles.crash_site(e), repr(e)[:200], text, frags, space))
        return
    bad = oracles.check_c02(text, stmts)
    acc.case(text, oracles.has_group(stmts), outcome=f'{min(len(stmts), 3)} statement(s)', sample=text)
    if bad:
        acc.violation(e1.viol(bad[0], str(bad[1]), bad[2], text, frags, space))
        return
    acc.extra['n'] = acc.extra.get('n', 0) + 1
    if acc.extra['n'] % 23 == 0 and stmts:
        # the trees belong to the caller: after they were edited, parsing the same text again still returns the text
        acc.extra['reparsed_after_edit'] = acc.extra.get('reparsed_after_edit', 0) + 1
        for st in stmts:
            for leaf in list(st.flatten())[:3]:
                leaf.value = 'ZZ'
            del st.tokens[1:]
        try:
            again = sqlparse.parse(text)
            bad = oracles.check_c02(text, again)
            if not bad and any(a is b for a, b in zip(again, stmts)):
                bad = ('tree-shared-between-calls', 'parse', 'parse() returned a Statement object it had returned before')
        except Exception as e:  # noqa
            bad = ('parse-exception', 'second-parse|' + oracles.crash_site(e), repr(e)[:200])
        if bad:
            v = e1.viol(bad[0], 'after-editing-the-first-result|' + str(bad[1]), bad[2], text, frags, space)
            v['edit_first'] = True
            acc.violation(v)


def run(tier, seed):
    sp = _e1parse.parse_spaces(tier, focus=('D4', 'D7'))
    merged, sizes = e1.run(sp, _evaluate, seed, bits=27 if tier == 'thorough' else 23, setup=_setup)
    cov = {
        'evaluations': merged['n'], 'distinct_nontrivial': merged['distinct'],
        'rule': 'every sequence of 1..n fragments over the structural alphabet U, the focused drivers '
                'D1..D7 and the lexical alphabet LEX, joined raw (tokens may fuse) or by one blank. '
                'Non-trivial = parse() built at least one group node; distinct = distinct texts '
                '(hashed bitmap, lower bound).',
        'samples': merged['samples'][:8], 'exhaustive': True, 'spaces': sizes,
        'outcomes': dict(merged['outcomes']),
        'oracle': "''.join(str(s) for s in parse(x)) is a prefix of x and the rest is whitespace-only; "
                  'for every node str(node) == concatenation of the leaf values found by an explicit '
                  'walk over .tokens; flatten() yields the same leaf objects in the same order',
    }
    return core.Result('C02', 'exploration', cov, violations=merged['viol'], viol_count=merged['viol_count'],
                       assumptions=['inputs longer than the fragment bound are covered only by locality '
                                    '(each grouping pass inspects neighbours within one child list)'])


def replay(case):
    import sqlparse
    text = case['text']
    try:
        if case.get('edit_first'):
            for st in sqlparse.parse(text):
                for leaf in list(st.flatten())[:3]:
                    leaf.value = 'ZZ'
                del st.tokens[1:]
        bad = oracles.check_c02(text, sqlparse.parse(text))
    except sqlparse.exceptions.SQLParseError:
        bad = None
    except Exception as e:  # noqa
        bad = ('parse-exception', oracles.crash_site(e), repr(e))
    return {'text': text, 'violation': bool(bad), 'observed': bad}
