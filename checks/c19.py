"""C19 all input forms and front ends give the same result - E2 differential products."""
import io
import itertools
import os
import shutil
import sys
import tempfile

from vlib import core, oracles, grammar, explore

FRAGS = ['a', 'é', '€', 'ß', '\\', 'n', "'", ';', ' ', '\r\n', '\n', 'x', 'select', '﻿', 'я', '中', '"', '--', '\r',
         '\\x', 'u00e9']
ENCODINGS = ['utf-8', 'latin-1', 'cp1252', 'cp1251', 'gbk', 'utf-16', 'utf-8-sig',
             # encodings whose bytes are 7-bit clean but are not ASCII: the encoding argument must be honoured
             'utf-16-le', 'utf-32-be', 'utf-7', 'hz', 'iso2022_jp', 'cp037']
FORMAT_OPTS = [{}, {'reindent': True, 'keyword_case': 'upper'}, {'strip_comments': True, 'strip_whitespace': True}]


def _obs(sqlparse, entry, arg, enc, opts):
    """a comparable observation of one call; exceptions are observations too"""
    kw = {} if enc is None else {'encoding': enc}
    try:
        if entry == 'parse':
            st = sqlparse.parse(arg, **kw)
            return ['ok', [str(s) for s in st], [oracles.shape([s])[0] for s in st]]
        if entry == 'parsestream':
            st = list(sqlparse.parsestream(arg, **kw))
            return ['ok', [str(s) for s in st], [oracles.shape([s])[0] for s in st]]
        if entry == 'split':
            return ['ok', sqlparse.split(arg, **kw)]
        return ['ok', sqlparse.format(arg, **dict(opts), **kw)]
    except sqlparse.exceptions.SQLParseError:
        return ['SQLParseError']
    except Exception as e:  # noqa
        return ['exception', type(e).__name__, oracles.crash_site(e)]


class StingyStream(io.TextIOBase):
    """a text stream whose environment answers are as unhelpful as the io contract allows: read(n) hands out at most
    `k` characters per call, readline()/iteration one line, readlines(hint) stops at the first line that reaches
    min(hint, k); read() without a size returns the rest"""

    def __init__(self, text, k):
        self.text, self.pos, self.k = text, 0, k

    def readable(self):
        return True

    def read(self, size=-1):
        if size is None or size < 0:
            out, self.pos = self.text[self.pos:], len(self.text)
            return out
        out = self.text[self.pos:self.pos + min(size, self.k)]
        self.pos += len(out)
        return out

    def readline(self, size=-1):
        if self.pos >= len(self.text):
            return ''
        m = LINE_END.search(self.text, self.pos)
        end = m.end() if m else len(self.text)
        if size is not None and size >= 0:
            end = min(end, self.pos + size)
        out, self.pos = self.text[self.pos:end], end
        return out

    def readlines(self, hint=-1):
        out, tot = [], 0
        while True:
            ln = self.readline()
            if not ln:
                return out
            out.append(ln)
            tot += len(ln)
            if hint is not None and hint > 0 and tot >= min(hint, self.k):
                return out

    def __iter__(self):
        return self

    def __next__(self):
        ln = self.readline()
        if not ln:
            raise StopIteration
        return ln


LINE_END = __import__('re').compile('\n')       # newline='' semantics: only LF ends a line, nothing is translated


def forms_for(text):
    """[(form name, argument factory, encoding argument, reference text)]"""
    out = [('StringIO', lambda: io.StringIO(text), None, text),
           ('short-read-stream(1)', lambda: StingyStream(text, 1), None, text),
           ('short-read-stream(3)', lambda: StingyStream(text, 3), None, text)]
    for enc in ENCODINGS:
        try:
            data = text.encode(enc)
        except UnicodeError:
            continue
        if data.decode(enc) != text:
            continue              # e.g. utf-8-sig eats a leading BOM by definition of the codec
        out.append((f'bytes+{enc}', (lambda d=data: d), enc, text))
        if enc == 'utf-8':
            out.append(('utf8-bytes-no-encoding', (lambda d=data: d), None, text))
            out.append(('utf8-bytestream', (lambda d=data: io.TextIOWrapper(io.BytesIO(d), encoding='utf-8', newline='')), None, text))
        elif enc in ('latin-1', 'cp1252', 'cp1251', 'gbk'):
            try:
                data.decode('utf-8')
            except UnicodeDecodeError:
                # documented: bytes that are not UTF-8 and come without an encoding are read as Latin-1
                out.append((f'non-utf8-bytes-no-encoding({enc})', (lambda d=data: d), None, data.decode('latin-1')))
    return out


def check_text(sqlparse, text, acc, space):
    for entry in ('parse', 'parsestream', 'split', 'format'):
        for opts in (FORMAT_OPTS if entry == 'format' else [{}]):
            cache = {}
            for fname, mk, enc, reftext in forms_for(text):
                if reftext not in cache:
                    cache[reftext] = _obs(sqlparse, entry, reftext, None, opts)
                want = cache[reftext]
                got = _obs(sqlparse, entry, mk(), enc, opts)
                acc.extra['calls'] += 1
                if got != want:
                    kind = 'form-differs' if got[0] == 'ok' else 'form-raises'
                    form_class = fname.split('(')[0].split('+')[0]
                    acc.violation({'kind': kind, 'sig': f'{form_class}|{entry}|{got[0] if got[0] != "exception" else got[1]}',
                                   'text': text, 'form': fname, 'entry': entry, 'opts': opts,
                                   'detail': f'{fname}: {got!r:.200} but str form: {want!r:.200}',
                                   'size': len(text)})
            if entry == 'parse':
                a = cache.get(text) or _obs(sqlparse, 'parse', text, None, {})
                b = _obs(sqlparse, 'parsestream', text, None, {})
                if a != b:
                    acc.violation({'kind': 'parse-vs-parsestream', 'sig': 'differs', 'text': text, 'form': 'str',
                                   'entry': 'parsestream', 'opts': {}, 'detail': f'{a!r:.150} vs {b!r:.150}', 'size': len(text)})
    acc.case(text, len(text) > 1, outcome='text', sample=text)


# ------------------------------------------------------------------ CLI

BOOL_FLAGS = [('-r', {'reindent': True}), ('-a', {'reindent_aligned': True}), ('-s', {'use_space_around_operators': True}),
              ('--strip-comments', {'strip_comments': True}), ('--indent_after_first', {'indent_after_first': True}),
              ('--indent_columns', {'indent_columns': True})]
VALUE_FLAGS = [[], ['-k', 'upper'], ['-k', 'capitalize'], ['-i', 'lower'], ['-l', 'python'], ['-l', 'php'],
               ['--indent_width', '4'], ['--wrap_after', '10'], ['--comma_first', 'True'], ['--compact', 'True'],
               ['--comma_first', ''], ['-k', 'lower', '-i', 'upper']]
VALUE_OPTS = {'-k': 'keyword_case', '-i': 'identifier_case', '-l': 'output_format', '--indent_width': 'indent_width',
              '--wrap_after': 'wrap_after', '--comma_first': 'comma_first', '--compact': 'compact'}
CLI_TEXTS = ["select a, b from t where x = 1; insert into t values (1, 'é')\n",
             "select 'a\r\nb', \"q\rz\" from t -- c\r\nwhere x = 1\r\n",
             'select case when a then 1 else 2 end, f(x) from t join u on a = b order by 1\n',
             "/* c */ update t set a = 'я' where b in (select 1)",
             '']


def cli_cases(tier):
    flags = []
    n = len(BOOL_FLAGS)
    for mask in range(1 << n):
        flags.append([BOOL_FLAGS[i] for i in range(n) if mask >> i & 1])
    for bf in flags:
        for vf in (VALUE_FLAGS if tier == 'thorough' or len(bf) <= 2 else VALUE_FLAGS[:4]):
            yield bf, vf


def run_cli(sqlparse, scratch, text, enc, argv_opts, channel_in, channel_out):
    """-> (exit code, output text or None, error)"""
    from sqlparse import cli
    data = text.encode(enc)
    infile = os.path.join(scratch, 'in.sql')
    outfile = os.path.join(scratch, 'out.sql')
    with open(infile, 'wb') as fh:
        fh.write(data)
    argv = []
    if channel_in == 'stdin':
        argv.append('-')
    else:
        argv.append(infile)
    if channel_out == 'file':
        argv += ['-o', outfile]
    elif channel_out == 'inplace':
        argv += ['-o', infile]
    argv += ['--encoding', enc] + argv_opts
    old = sys.stdin, sys.stdout, sys.stderr
    out_bytes = io.BytesIO()
    try:
        sys.stdin = io.TextIOWrapper(io.BytesIO(data), encoding='utf-8')      # the CLI re-wraps .buffer itself
        wrapper = io.TextIOWrapper(out_bytes, encoding=enc, newline='')
        sys.stdout = wrapper
        sys.stderr = io.StringIO()
        try:
            rc = cli.main(argv)
        except SystemExit as e:
            rc = e.code
        wrapper.flush()
        captured = out_bytes.getvalue()
        wrapper.detach()
        err = sys.stderr.getvalue()
    finally:
        sys.stdin, sys.stdout, sys.stderr = old
    if channel_out == 'stdout':
        got = captured.decode(enc)
    else:
        path = outfile if channel_out == 'file' else infile
        with open(path, 'rb') as fh:
            got = fh.read().decode(enc)
    return rc, got, err


def check_cli(sqlparse, scratch, acc, bf, vf, text, enc, cin, cout):
    argv_opts = [f for f, _ in bf] + list(vf)
    opts = {}
    for _, o in bf:
        opts.update(o)
    it = iter(vf)
    for flag in it:
        val = next(it)
        name = VALUE_OPTS[flag]
        if name in ('indent_width', 'wrap_after'):
            val = int(val)
        elif name in ('comma_first', 'compact'):
            val = bool(val)          # what argparse's type=bool delivers (DESIGN 4.0 reading 8)
        opts[name] = val
    acc.extra['cli_runs'] += 1
    try:
        want = ['ok', sqlparse.format(text, **dict(opts))]
    except sqlparse.exceptions.SQLParseError:
        want = ['SQLParseError']
    except Exception as e:  # noqa
        want = ['exception', type(e).__name__]
    try:
        rc, got, err = run_cli(sqlparse, scratch, text, enc, argv_opts, cin, cout)
        obs = ['ok', got] if rc == 0 else ['rc', rc, err[:80]]
    except Exception as e:  # noqa
        obs = ['exception', type(e).__name__, oracles.crash_site(e)]
    key = f'{" ".join(argv_opts)}|{enc}|{cin}>{cout}|{text[:20]!r}'
    acc.case(key, bool(argv_opts), outcome=obs[0], sample={'argv': argv_opts, 'encoding': enc, 'in': cin, 'out': cout, 'text': text})
    ok = obs == want or (want[0] != 'ok' and obs[0] != 'ok')
    if not ok:
        cls = 'line-ends-in-quoted-text' if obs[0] == 'ok' and want[0] == 'ok' and \
            obs[1].replace('\r\n', '\n').replace('\r', '\n') == want[1].replace('\r\n', '\n').replace('\r', '\n') else obs[0]
        acc.violation({'kind': 'cli-differs-from-format', 'sig': f'{cls}|in={cin}|out={cout}', 'text': text,
                       'argv': argv_opts, 'encoding': enc, 'cin': cin, 'cout': cout,
                       'detail': f'cli {obs!r:.200} vs format {want!r:.200}', 'size': len(argv_opts) * 100 + len(text)})


# ------------------------------------------------------------------ long inputs around buffer boundaries

BUFFER_SIZES = [4096, 8192, 65536]
SPANNING = [("'a", "b'"), ('/* a', 'b */'), ('$$a', 'b$$'), ('order', 'by x'), ('"a', 'b"'), ('end', 'if')]


def boundary_texts(tier):
    """texts in which the line end inside a token that spans two lines sits at every offset of a window around a
    common buffer size (filler: whole comment lines, cheap to lex), so that any reader working block-wise or
    line-block-wise has a block edge inside the token"""
    import io as _io
    sizes = sorted(set(BUFFER_SIZES + [_io.DEFAULT_BUFFER_SIZE]))
    if tier == 'quick':
        sizes = [s for s in sizes if s <= 8192]
    out = []
    for size in sizes:
        for first, second in SPANNING:
            for delta in range(-3, 4) if tier == 'quick' else range(-8, 9):
                head = 'select '
                target = size + delta             # offset of the line end inside the spanning token
                fill = target - len(head) - len(first)
                lines = []
                while fill > 0:
                    n = min(fill, 1000)
                    if fill - n == 1:
                        n -= 1                    # never leave a 1-character rest (a filler line is '--' ... LF)
                    lines.append('--' + 'x' * (n - 3) + '\n' if n >= 3 else ' ' * n)
                    fill -= n
                text = ''.join(lines) + head + first + '\n' + second + ' from t;\nselect 2'
                assert text.index(first + '\n') + len(first) == target, (size, delta)
                out.append(text)
    return out


def run(tier, seed):
    n = 2 if tier == 'quick' else 3
    texts = [''.join(t) for k in range(1, n + 1) for t in itertools.product(FRAGS, repeat=k)]
    for si in range(len(grammar.SEEDS)):
        b, _ = explore.run(lambda c, si=si: grammar.build_stmt(c, si), {}, set())
        texts.append(b.text())
        texts.append(b.text().replace('c', 'é').replace(' t', ' таблица') + "; select 'ß€'")
    long_texts = boundary_texts(tier)
    texts = core.rotate(texts + long_texts, seed)

    def work(chunk):
        import sqlparse
        acc = core.Acc(bits=22)
        for t in chunk:
            check_text(sqlparse, t, acc, 'texts')
        return acc.dump()
    m1 = core.merge(core.pmap(work, core.chunked(texts, core.NPROC * 6)))

    cl = []
    for bf, vf in cli_cases(tier):
        for ti, text in enumerate(CLI_TEXTS):
            if tier == 'quick' and ti > 1 and len(bf) > 1:
                continue
            for enc in (('utf-8', 'cp1251') if ti == 3 else ('utf-8', 'latin-1') if ti < 2 else ('utf-8',)):
                try:
                    text.encode(enc)
                except UnicodeError:
                    continue
                for cin, cout in (('file', 'stdout'), ('stdin', 'stdout'), ('file', 'file'), ('stdin', 'file'), ('file', 'inplace')):
                    if tier == 'quick' and len(bf) > 2 and (cin, cout) not in (('file', 'stdout'), ('stdin', 'file')):
                        continue
                    cl.append((bf, vf, text, enc, cin, cout))
    cl = core.rotate(cl, seed)

    def work_cli(chunk):
        import sqlparse
        acc = core.Acc(bits=22)
        scratch = tempfile.mkdtemp(prefix='vcli.', dir='/tmp')
        try:
            for bf, vf, text, enc, cin, cout in chunk:
                check_cli(sqlparse, scratch, acc, bf, vf, text, enc, cin, cout)
        finally:
            shutil.rmtree(scratch, ignore_errors=True)
        return acc.dump()
    m2 = core.merge(core.pmap(work_cli, core.chunked(cl, core.NPROC * 4)))
    viols = m1['viol'] + m2['viol']
    vc = m1['viol_count']
    vc.update(m2['viol_count'])
    cov = {
        'evaluations': m1['extra']['calls'] + m2['extra']['cli_runs'], 'distinct_nontrivial': m1['distinct'] + m2['distinct'],
        'rule': 'API: every string of <= n fragments over a 21-fragment alphabet (ASCII, Latin-1, Cyrillic, CJK, Euro, BOM, '
                'backslash sequences, quotes, all line ends) plus plain and non-ASCII spellings of the 41 seed statements x every '
                'encoding able to represent the text x form (StringIO, bytes+encoding, UTF-8 bytes without encoding, non-UTF-8 '
                'bytes without encoding, byte stream) x entry (parse, parsestream, split, format with 3 option sets). CLI: every '
                'subset of the 6 boolean flags x value flags x 5 texts x encodings x channel (file/stdin -> stdout/-o file/in '
                'place), run in-process through sqlparse.cli.main. Non-trivial = text longer than one character / at least one '
                'flag; distinct by text resp. CLI case key (hashed bitmap, lower bound).',
        'samples': m1['samples'][:3] + m2['samples'][:3], 'exhaustive': True,
        'api_texts': m1['n'], 'api_calls': m1['extra']['calls'], 'cli_runs': m2['extra']['cli_runs'],
        'cli_outcomes': dict(m2['outcomes']),
        'oracle': 'differential: every form gives exactly the observation (result or exception class) of the str form; '
                  'non-UTF-8 bytes without encoding equal the Latin-1 decoding; parsestream == parse; CLI output == '
                  'format(decoded text, **corresponding options)',
    }
    return core.Result('C19', 'exploration', cov, violations=viols, viol_count=vc,
                       assumptions=['DESIGN 4.0 reading 8 (type=bool CLI flags)', 'codecs of CPython'])


def replay(case):
    import sqlparse
    acc = core.Acc()
    if case['kind'] == 'cli-differs-from-format':
        scratch = tempfile.mkdtemp(prefix='vcli.', dir='/tmp')
        try:
            bf = [b for b in BOOL_FLAGS if b[0] in case['argv']]
            vf = [a for a in case['argv'] if a not in [b[0] for b in bf]]
            check_cli(sqlparse, scratch, acc, bf, vf, case['text'], case['encoding'], case['cin'], case['cout'])
        finally:
            shutil.rmtree(scratch, ignore_errors=True)
    else:
        check_text(sqlparse, case['text'], acc, 'replay')
    return {'text': case['text'], 'violation': bool(acc.viol), 'observed': [v['detail'] for v in acc.viol[:2]]}
