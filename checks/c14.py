"""C14 literal / quoted-name / comment bodies are opaque; keywords classify by table - E1 over CLS."""
import itertools

from vlib import core, oracles
from checks import _e1parse

DELIMS = ['', ' ', '\t', '\n', '\r\n', ',', '(', ')', ';', '=', '+', '-', '/', '<', '|', '*', '>', '&']   # '%' opens a %s placeholder
# around regions also the remaining operator characters ('#' and '@' are name prefixes / word characters, so they
# are no delimiters for the word part)
REGION_DELIMS = DELIMS + ['#', '@', '^']
OPCHARS = set('+/@#%^&|-')     # characters of the greedy operator rule (sig 'left=operator-char'; repaired by 8ce678f)


def regions():
    """(name, opener, closer, expected type name, extra multi-char body fragments, forbidden body chars,
    forbidden substrings)"""
    return [
        ('single-quoted', "'", "'", 'Literal.String.Single', ["''"], ("'", '\\'), ()),
        ('double-quoted', '"', '"', 'Literal.String.Symbol', ['""'], ('"', '\\'), ()),
        ('back-quoted', '`', '`', 'Name', ['``'], ('`',), ()),
        ('dollar', '$$', '$$', 'Literal', ["'", '--', '/*'], ('$',), ()),
        ('dollar-tag', '$a$', '$a$', 'Literal', ["'", '$$'], (), ('$a$',)),
        ('dollar-tag-nonascii', '$é_1$', '$é_1$', 'Literal', ["'", '$$', '$É_1$'], (), ('$é_1$',)),
        ('block-comment', '/*', '*/', 'Comment.Multiline', ['--', "'", '/*'], (), ('*/',)),
        ('line-comment', '--', '\n', 'Comment.Single', ["'", '/*', '*/', '--'], ('\n', '\r'), ()),
        ('hash-comment', '# ', '\n', 'Comment.Single', ["'", '/*'], ('\n', '\r'), ()),
    ]


def body_alphabet(cls, reg):
    name, op, cl, tname, extra, forb, forbsub = reg
    return [c for c in cls if c not in forb] + extra


def check_lexeme(lexer, left, lexeme, right, expect):
    text = left + lexeme + right
    pos = 0
    for tt, val in lexer.tokenize(text):
        if pos == len(left):
            if val == lexeme and oracles.tname(tt) == expect:
                return None
            return (oracles.tname(tt), val)
        if pos > len(left):
            return ('boundary', 'token straddles the left edge')
        pos += len(val)
    return ('boundary', 'no token at the left edge')


# keyword phrases directly left of a quoted region. The dedicated rule AT TIME ZONE '<text>' takes the literal into
# its own Keyword.TZCast token (an "earlier dedicated lexical rule"): there the region must lie, whole, at the end of
# that one token; after every other phrase it is a token of its own
PHRASE_LEFTS = ['at time zone ', 'AT TIME ZONE ', 'x at  time\nzone\t', 'with time zone ', 'timestamp with time zone ',
                'time zone ', 'zone ', 'at time ', 'interval ', 'date ', 'like ', 'not like ', 'is ', 'escape ', 'e', 'n']
TZCAST = __import__('re').compile(r'(?i)\bat\s+time\s+zone\s+$')


def check_phrase(lexer, left, lexeme, right, expect):
    text = left + lexeme + right
    pos = 0
    lo, hi = len(left), len(left) + len(lexeme)
    for tt, val in lexer.tokenize(text):
        end = pos + len(val)
        if end > lo:
            if pos == lo and val == lexeme and oracles.tname(tt) == expect:
                return None
            if TZCAST.search(left) and oracles.tname(tt) == 'Keyword.TZCast' and pos < lo and end == hi \
                    and TZCAST.search(text[pos:lo]):
                return None
            if len(left) == 1 and pos == 0 and end == hi and oracles.tname(tt).startswith(expect.rsplit('.', 1)[0]):
                return None        # a one-letter string prefix (E'..', N'..') lexed as part of the string token
            return (oracles.tname(tt), val)
        pos = end
    return ('boundary', 'no token covers the region')


def _ctx_name(c):
    return {'': 'edge', ' ': 'blank', '\t': 'tab', '\n': 'lf', '\r\n': 'crlf'}.get(c, c)


def ordered_lookup():
    """my own first-table-wins lookup in the documented registration order"""
    from sqlparse import keywords as K
    tables = [K.KEYWORDS_COMMON, K.KEYWORDS_ORACLE, K.KEYWORDS_MYSQL, K.KEYWORDS_PLPGSQL, K.KEYWORDS_HQL,
              K.KEYWORDS_MSACCESS, K.KEYWORDS_SNOWFLAKE, K.KEYWORDS_BIGQUERY, K.KEYWORDS]
    names = ['COMMON', 'ORACLE', 'MYSQL', 'PLPGSQL', 'HQL', 'MSACCESS', 'SNOWFLAKE', 'BIGQUERY', 'KEYWORDS']
    out = {}
    for tb, nm in zip(tables, names):
        for w, tt in tb.items():
            if w not in out:
                out[w] = (oracles.tname(tt), nm)
    return out


# words typed by a dedicated lexical rule that comes before the generic word rule
DEDICATED = {'CASE': 'Keyword', 'IN': 'Keyword', 'VALUES': 'Keyword', 'USING': 'Keyword', 'FROM': 'Keyword',
             'AS': 'Keyword', 'JOIN': 'Keyword', 'END': 'Keyword', 'ASC': 'Keyword.Order', 'DESC': 'Keyword.Order',
             'CREATE': 'Keyword.DDL', 'LIKE': 'Operator.Comparison', 'ILIKE': 'Operator.Comparison',
             'RLIKE': 'Operator.Comparison', 'REGEXP': 'Operator.Comparison'}
# first words of the dedicated multi-word keyword rules as LEFT context: a following word must stay its own token
# unless it is one of the listed completions of that rule (word boundaries of the multi-word rules)
WORD_LEFTS = {
    'order ': {'BY'}, 'group ': {'BY'}, 'primary ': {'KEY'}, 'union ': {'ALL'}, 'end ': {'IF', 'LOOP', 'WHILE', 'CASE'},
    'not ': {'NULL', 'LIKE', 'ILIKE', 'RLIKE', 'REGEXP'}, 'nulls ': {'FIRST', 'LAST'}, 'double ': {'PRECISION'},
    'left ': {'JOIN', 'INNER', 'OUTER', 'STRAIGHT'}, 'full ': {'JOIN', 'INNER', 'OUTER', 'STRAIGHT'},
    'inner ': {'JOIN'}, 'outer ': {'JOIN'}, 'cross ': {'JOIN'}, 'natural ': {'JOIN'}, 'create or ': {'REPLACE'},
    'handler ': {'FOR'}, 'order\n': {'BY'}, 'end\t': {'IF', 'LOOP', 'WHILE', 'CASE'}, 'asc nulls ': {'FIRST', 'LAST'},
    'lateral view ': {'EXPLODE', 'INLINE', 'PARSE_URL_TUPLE', 'POSEXPLODE', 'STACK'}, 'x ': set(), '1 ': set(),
}
NONWORDS = ['foo', 'xyzzy', 'selectx', 'éa', 'a1', 'x_y', 'fromage', 'endx', 'ascii_']


def casings(w, tier):
    lo = w.lower()
    out = [lo, lo.upper(), lo.title(), ''.join(c.upper() if i % 2 else c for i, c in enumerate(lo)),
           lo[:-1] + lo[-1].upper(), lo[0].upper() + lo[1:]]
    if tier == 'thorough' and len(lo) <= 7:
        out = [''.join(c.upper() if m >> i & 1 else c for i, c in enumerate(lo)) for m in range(1 << len(lo))]
    seen, res = set(), []
    for x in out:
        if x not in seen:
            seen.add(x)
            res.append(x)
    return res


def run(tier, seed):
    cls = _e1parse.cls_alphabet()
    regs = regions()
    n = 2 if tier == 'quick' else 3
    tasks = []
    for ri, reg in enumerate(regs):
        alpha = body_alphabet(cls, reg)
        for first in [None] + list(range(len(alpha))):
            tasks.append(('region', ri, first))
    look = ordered_lookup()
    words = sorted(w for w in look if w.isidentifier() and ' ' not in w)
    for ch in core.chunked(words + NONWORDS, 64):
        tasks.append(('words', ch, None))
    tasks = core.rotate(tasks, seed)
    lefts = DELIMS
    rights = DELIMS
    rlefts = rrights = REGION_DELIMS
    if tier == 'thorough':
        lefts3 = ['', ' ', ',', '+', '(', '\n']
    else:
        lefts3 = lefts

    def work(chunk):
        from sqlparse import lexer, tokens as T
        # a caller's own, differently configured Lexer objects exist next to the default one: the tables the
        # default instance classifies by are its own
        lexer.Lexer.get_default_instance()          # the default lexer exists already (a long-running process)
        own = [lexer.Lexer(), lexer.Lexer()]
        own[0].clear()
        own[1].default_initialization()
        own[1].add_keywords({'FOO': T.Keyword, 'SELECT': T.Name, 'ZZ_NO_WORD': T.Keyword.DML})
        # ... and are in use: whatever they compute or remember about a word is theirs
        for lx in own:
            list(lx.get_tokens("select foo, zz_no_word, map from bar where x like 'y' order by 1 -- c"))
        acc = core.Acc(bits=26 if tier == 'thorough' else 24)
        for kind, a, b in chunk:
            if kind == 'region':
                reg = regs[a]
                name, op, cl, tname, extra, forb, forbsub = reg
                alpha = body_alphabet(cls, reg)
                if b is None:
                    bodies = [()]
                else:
                    bodies = [(alpha[b],) + t for k in range(0, n) for t in itertools.product(alpha, repeat=k)]
                for body in bodies:
                    bt = ''.join(body)
                    if any(s in bt for s in forbsub) or (cl != '\n' and cl in bt and len(cl) > 1):
                        continue
                    if name.startswith('dollar') and (op + bt + cl).find(cl, len(op)) != len(op) + len(bt):
                        continue       # the body (with the closer's first chars) must not form the terminator early
                    if name == 'block-comment' and ('/*' + bt + '*/').find('*/', 2) != 2 + len(bt):
                        continue
                    if name in ('single-quoted', 'double-quoted', 'back-quoted') and \
                            bt.replace(op + op, '').count(op):
                        continue
                    expect = tname
                    if name in ('block-comment', 'line-comment', 'hash-comment') and bt.startswith('+'):
                        expect = tname + '.Hint'
                    ctx_l = rlefts if len(body) < 3 else lefts3
                    ctx_r = rrights if len(body) < 3 else lefts3
                    if name in ('single-quoted', 'double-quoted') and len(body) <= 2:
                        for l in PHRASE_LEFTS:
                            if len(l) == 1 and name == 'double-quoted':
                                continue
                            for r in ('', ' ', ',', ';', ')'):
                                lexeme = op + bt + cl
                                bad = check_phrase(lexer, l, lexeme, r, expect)
                                acc.case(l + lexeme + r, len(body) > 0, outcome=name + '-after-phrase',
                                         sample={'left': l, 'lexeme': lexeme, 'right': r, 'expect': expect})
                                if bad:
                                    acc.violation({'kind': 'region-not-one-token',
                                                   'sig': f'{name}|left=phrase:{" ".join(l.lower().split())}|got={bad[0]}',
                                                   'text': l + lexeme + r, 'left': l, 'lexeme': lexeme, 'right': r,
                                                   'expect': expect, 'phrase': True,
                                                   'detail': f'token over the region: {bad!r}', 'size': len(l + lexeme + r)})
                    closers = [cl] if cl != '\n' else ['\n', '\r\n', '\r', '']
                    for c in closers:
                        lexeme = op + bt + c
                        for l in ctx_l:
                            if name == 'line-comment' and l == '-':
                                continue          # '-' + '--' spells a comment that starts one character earlier
                            for r in (ctx_r if c != '' else ['']):
                                if c == '\r' and r.startswith('\n'):
                                    continue          # would spell CRLF, a different line end
                                bad = check_lexeme(lexer, l, lexeme, r, expect)
                                acc.case(l + lexeme + r, len(body) > 0, outcome=name,
                                         sample={'left': l, 'lexeme': lexeme, 'right': r, 'expect': expect})
                                if bad:
                                    lc = 'operator-char' if l and l[-1] in OPCHARS else _ctx_name(l)
                                    sig = f'{name}|left={lc}|got={bad[0]}'
                                    if name.startswith('dollar-tag') and isinstance(bad[1], str) and bad[1] != lexeme and \
                                            lexeme.startswith(bad[1]) and bad[1][-len(cl):].lower() == cl.lower() \
                                            and bad[1][-len(cl):] != cl:
                                        sig = 'dollar-tag|terminator-matched-case-insensitively'
                                    acc.violation({'kind': 'region-not-one-token', 'sig': sig, 'text': l + lexeme + r,
                                                   'left': l, 'lexeme': lexeme, 'right': r, 'expect': expect,
                                                   'detail': f'token at the edge: {bad!r}', 'size': len(l + lexeme + r)})
            else:
                for w in a:
                    up = w.upper()
                    if up in DEDICATED:
                        expect = DEDICATED[up]
                    elif up in look:
                        expect = look[up][0]
                    else:
                        expect = 'Name'
                    for l, completions in WORD_LEFTS.items():
                        if up in completions or (l.startswith('create') and up == 'REPLACE'):
                            continue
                        for cw in (w.lower(), w.upper()):
                            for r in ('', ' ', ',', ';'):
                                bad = check_lexeme(lexer, l, cw, r, expect)
                                acc.case(l + cw + r, True, outcome='word-after-keyword',
                                         sample={'left': l, 'word': cw, 'right': r, 'expect': expect})
                                if bad:
                                    acc.violation({'kind': 'word-type', 'sig': f'after-keyword:{l.strip()}|{up}|got={bad[0]}',
                                                   'text': l + cw + r, 'left': l, 'lexeme': cw, 'right': r, 'expect': expect,
                                                   'detail': f'token at the edge: {bad!r}', 'size': len(cw)})
                    for cw in casings(w, tier):
                        for l in lefts:
                            for r in rights:
                                if r in ('(',) or (r and r[0] == '.'):
                                    continue
                                bad = check_lexeme(lexer, l, cw, r, expect)
                                acc.case(l + cw + r, True, outcome='word',
                                         sample={'left': l, 'word': cw, 'right': r, 'expect': expect})
                                if bad:
                                    acc.violation({'kind': 'word-type', 'sig': f'{up}|expected={expect}|got={bad[0]}',
                                                   'text': l + cw + r, 'left': l, 'lexeme': cw, 'right': r, 'expect': expect,
                                                   'detail': f'token at the edge: {bad!r}', 'size': len(cw)})
        return acc.dump()
    merged = core.merge(core.pmap(work, core.chunked(tasks, core.NPROC * 10)))
    cov = {
        'evaluations': merged['n'], 'distinct_nontrivial': merged['distinct'],
        'rule': '(a) 8 region kinds x EVERY body of <= n fragments (n = 2 quick / 3 thorough) over one representative per '
                'code-point class of the current rule set plus multi-character fragments, minus the region\'s terminator '
                '(and backslash for quote-delimited regions) x every (left, right) pair of 19 delimiter contexts (line '
                'comments with each line end incl. end of input); (b) every single-word key of the nine dictionaries and 9 '
                'non-dictionary words x 6 casings (thorough: all 2^len for len <= 7) x the same contexts minus "(" and "." '
                'on the right. Non-trivial = non-empty body / every word case; distinct by text (hashed bitmap, lower bound).',
        'samples': merged['samples'][:6], 'exhaustive': True, 'outcomes': dict(merged['outcomes']),
        'dictionary_words': len(words), 'charclasses': len(cls),
        'oracle': 'the token starting at len(left) is exactly the lexeme with the expected type; word type = first '
                  'dictionary listing it in the documented registration order (own lookup) unless a dedicated earlier rule '
                  'types it; a word in no dictionary is Name',
    }
    return core.Result('C14', 'exploration', cov, violations=merged['viol'], viol_count=merged['viol_count'],
                       assumptions=['class partition argument of DESIGN 2.1 for body characters', 'DESIGN 4.0 reading 5 (delimiters)'])


def replay(case):
    from sqlparse import lexer
    fn = check_phrase if case.get('phrase') else check_lexeme
    bad = fn(lexer, case['left'], case['lexeme'], case['right'], case['expect'])
    return {'text': case['text'], 'violation': bool(bad), 'observed': bad}
