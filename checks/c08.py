"""C08 targeted filters change exactly their target tokens - E2 with a reference transformer."""
from vlib import core, e2, oracles, options, grammar

CONV = {'upper': str.upper, 'lower': str.lower, 'capitalize': str.capitalize}


def expected_sig(sig_in, opts):
    """Reference transformer: what the significant tokens must be after the targeted filters.
    sig_in: [(type name, value)] of the input (comments already normalised, keywords blank-collapsed)."""
    out = []
    kc, ic = opts.get('keyword_case'), opts.get('identifier_case')
    n = opts.get('truncate_strings')
    marker = opts.get('truncate_char', '[...]')
    for tn, val in sig_in:
        if tn.startswith('Comment'):
            # an optimizer hint is recognised by how it is written, not by how the lexer typed it
            if opts.get('strip_comments') and not val.startswith(('/*+', '--+', '# +')):
                continue
            out.append(val)
            continue
        if kc and (tn == 'Keyword' or tn.startswith('Keyword.')):
            val = CONV[kc](val)
        if ic and (tn == 'Name' or (tn == 'Literal.String.Symbol' and not val.startswith('"'))):
            val = CONV[ic](val)
        if n and tn == 'Literal.String.Single':
            inner = val[1:-1]
            if len(inner) > int(n):
                val = "'" + inner[:int(n)] + marker + "'"
        out.append(val)
    return out


def check_case(sqlparse, text, opts, targeted_only, sig_in=None):
    if sig_in is None:
        sig_in = oracles.sig(text, keep_types=True)
    try:
        out = sqlparse.format(text, **dict(opts))
    except sqlparse.exceptions.SQLParseError:
        return None
    except Exception as e:  # noqa
        return ('format-crash', oracles.crash_site(e), repr(e)[:160])
    exp = expected_sig(sig_in, opts)
    got = oracles.sig(out)
    if got != exp:
        i, a, b = oracles.first_diff(exp, got)
        if opts.get('truncate_strings') and a is not None and a.startswith("'") and a in out:
            from sqlparse import lexer
            if len(list(lexer.tokenize(a))) != 1:
                return ('target-mismatch', 'truncate_strings|cut-inside-escaped-quote',
                        f'expected token {a!r} is not one token; output={out!r}')
        return ('target-mismatch', _classify(sig_in, exp, got, i, opts), f'token {i}: expected {a!r} got {b!r}; output={out!r}')
    if targeted_only:
        try:
            out2 = sqlparse.format(out, **dict(opts))
        except Exception as e:  # noqa
            return ('format-crash', 'second-pass|' + oracles.crash_site(e), repr(e)[:160])
        if out2 != out:
            return ('not-idempotent', _idem_class(out, out2, opts), f'first={out!r} second={out2!r}')
    return None


def _tclass(tn):
    return tn.split('.')[0] if not tn.startswith('Literal.String') else tn.split('.')[-1]


def _classify(sig_in, exp, got, i, opts):
    which = '+'.join(k for k in ('strip_comments', 'keyword_case', 'identifier_case', 'truncate_strings')
                     if opts.get(k))
    e = exp[i] if i < len(exp) else None
    g = got[i] if i < len(got) else None
    # find the input token class at the divergence (by walking exp back to sig_in is not 1:1 when
    # comments were dropped; use value match)
    cls = 'end'
    if e is not None:
        for tn, val in sig_in:
            if val == e or val.lower() == e.lower():
                cls = _tclass(tn)
                break
        else:
            cls = 'Single' if e.startswith("'") else 'token'
    if e is not None and g is not None and e != g and e[:1] in '$`' and \
            oracles.norm_comment(e) == oracles.norm_comment(g):
        return f'{which}|line-ends-normalised-inside-quoted:{e[:1]}'
    if e is not None and g is not None and e != g and e[:1] in "'\"" and \
            oracles.norm_comment(e) == oracles.norm_comment(g) and \
            any(val[:1] in '$`' and (val.count("'") % 2 or val.count('"') % 2) for _, val in sig_in):
        # same root cause (the serializer only knows '..' and ".." as quoted text): an unpaired quote inside an earlier
        # dollar-quoted / back-quoted token derails its quote tracking, a later ordinary literal is taken for code
        return f'{which}|line-ends-normalised-inside-quoted:after-unpaired-quote-in-$-or-`-token'
    if e is not None and g is not None and e.lower() == g.lower():
        how = 'case-differs'
    elif len(got) > len(exp):
        how = 'extra-or-split'
    elif len(got) < len(exp):
        how = 'missing-or-fused'
    else:
        how = 'value-differs'
    return f'{which}|{how}:{cls}'


def _idem_class(a, b, opts):
    which = '+'.join(k for k in ('strip_comments', 'keyword_case', 'identifier_case', 'truncate_strings')
                     if opts.get(k))
    if ''.join(a.split()) == ''.join(b.split()):
        return which + '|whitespace-only'
    return which + '|tokens'


def _setup():
    import sqlparse
    return sqlparse


def _mk_eval(optsets):
    layout_keys = set(k for k, _ in options.LAYOUT)

    def ev(b, over, seed_name, d, acc, sqlparse):
        text = b.text()
        sig_in = oracles.sig(text, keep_types=True)
        for o in optsets:
            acc.extra['format_calls'] += 1
            targeted_only = not any(k in layout_keys for k in o)
            bad = check_case(sqlparse, text, o, targeted_only, sig_in)
            if bad:
                acc.violation(e2.viol(bad[0], bad[1], bad[2], text, over, seed_name, d, o))
        ncm = sum(1 for tn, _ in sig_in if tn.startswith('Comment'))
        acc.case(text, True, outcome=f'{min(ncm, 2)} comment(s)', sample={'text': text, 'seed': seed_name})
    return ev


def optsets(tier):
    t1 = [o for o in options.sets_within(options.TARGETED, 1) if o]
    t1.append({'truncate_strings': 3, 'truncate_char': '~'})
    t1.append({'truncate_strings': 3, 'truncate_char': ''})          # an empty marker is a legitimate value
    reps = [{'strip_comments': True}, {'keyword_case': 'upper'}, {'identifier_case': 'upper'},
            {'truncate_strings': 5}, {'keyword_case': 'capitalize', 'identifier_case': 'lower'}]
    lays = [{'reindent': True}, {'strip_whitespace': True, 'use_space_around_operators': True},
            {'reindent_aligned': True}]
    if tier == 'thorough':
        lays += [{'reindent': True, 'comma_first': True}, {'reindent': True, 'wrap_after': 5, 'compact': True},
                 {'use_space_around_operators': True}]
    tl = [dict(list(a.items()) + list(b.items())) for a in reps for b in lays]
    t2 = [o for o in options.sets_within(options.TARGETED, 2) if len(o) == 2]
    return t1, tl, t2


FILLER_ELEMS = [' ', '/*c*/', '/*+h*/', '--c\n']


def filler_texts(tier):
    import itertools
    from sqlparse import lexer, tokens as T
    from vlib import explore
    fillers = [''.join(f) for k in (1, 2, 3) for f in itertools.product(FILLER_ELEMS, repeat=k)]
    fillers = [f for f in fillers if f.strip(' ')]
    out = []
    for si in range(len(grammar.SEEDS)):
        if tier == 'quick' and si % 2:
            continue
        b, _ = explore.run(lambda c: grammar.build_stmt(c, si), {}, set())
        toks = [v for _, v in lexer.tokenize(b.text())]
        gaps = [i for i, v in enumerate(toks) if v == ' ']
        for g in gaps:
            for f in fillers:
                out.append(''.join(toks[:g]) + f + ''.join(toks[g + 1:]))
    return out


def run(tier, seed):
    seeds = list(range(len(grammar.SEEDS)))
    t1, tl, t2 = optsets(tier)
    if tier == 'quick':
        blocks = [('<=1 of {derivation, comment, literal spelling, style} x single targeted options and '
                   'targeted+layout pairs', {'der', 'cm', 'lit', 'style', 'wstyle'}, 1, t1 + tl),
                  ('seed x pairs of targeted options', set(), 0, t2)]
    else:
        blocks = [('<=2 literal spellings x single targeted options', {'lit'}, 2, t1),
                  ('<=1 of {derivation, comment, literal spelling, style} x single targeted options',
                   {'der', 'cm', 'lit', 'style'}, 1, t1),
                  ('<=1 of {derivation, comment, literal spelling, style} x targeted+layout and targeted pairs',
                   {'der', 'cm', 'lit', 'style'}, 1, tl + t2),
                  ('<=2 comments in gaps x strip_comments alone and with layout', {'cm'}, 2,
                   [{'strip_comments': True}, {'strip_comments': True, 'reindent': True},
                    {'strip_comments': True, 'strip_whitespace': True}])]
    viols, vc = [], None
    n_eval = n_dist = 0
    report, samples = [], []
    for label, active, bound, osets in blocks:
        m, info = e2.run(seeds, active, bound, _mk_eval(osets), seed, setup=_setup,
                         bits=25 if tier == 'thorough' else 22)
        viols += m['viol']
        vc = m['viol_count'] if vc is None else (vc.update(m['viol_count']) or vc)
        n_eval += m['extra']['format_calls']
        n_dist += m['distinct']
        samples += m['samples'][:2]
        info.update({'label': label, 'option_sets': len(osets), 'scripts': m['n'],
                     'format_calls': m['extra']['format_calls'], 'outcomes': dict(m['outcomes'])})
        report.append(info)
    # ---- multi-statement scripts (comments between statements, idempotence at statement boundaries)
    scripts = e2.script_texts(tier)
    s_opts = t1 + [dict(strip_comments=True, reindent=True), dict(strip_comments=True, keyword_case='upper', identifier_case='upper')]
    layout_keys = set(k for k, _ in options.LAYOUT)

    def ev_script(text, acc, sqlparse):
        sig_in = oracles.sig(text, keep_types=True)
        for o in s_opts:
            acc.extra['format_calls'] += 1
            bad = check_case(sqlparse, text, o, not any(k in layout_keys for k in o), sig_in)
            if bad:
                acc.violation(e2.viol(bad[0], bad[1] + '|script', bad[2], text, {}, 'script', 1, o))
        acc.case(text, True, outcome='script', sample={'script': text})
    ms = e2.run_texts(scripts, ev_script, seed, setup=_setup)
    viols += ms['viol']
    vc.update(ms['viol_count'])
    n_eval += ms['extra']['format_calls']
    n_dist += ms['distinct']
    samples += ms['samples'][:2]
    report.append({'label': 'scripts of 2-3 seed statements x every separator filler x targeted option sets',
                   'scripts': ms['n'], 'option_sets': len(s_opts), 'format_calls': ms['extra']['format_calls']})
    # ---- the language of gap fillers: every sequence of <= 3 of {blank, block comment, hint, line comment} in every
    # gap of every seed (comment glued to one neighbour only, runs of comments with a hint among them, ...)
    ftexts = filler_texts(tier)
    f_opts = [dict(strip_comments=True), dict(strip_comments=True, strip_whitespace=True),
              dict(strip_comments=True, reindent=True)]

    def ev_filler(text, acc, sqlparse):
        sig_in = oracles.sig(text, keep_types=True)
        for o in f_opts:
            acc.extra['format_calls'] += 1
            bad = check_case(sqlparse, text, o, len(o) == 1, sig_in)
            if bad:
                acc.violation(e2.viol(bad[0], bad[1] + '|filler', bad[2], text, {}, 'filler', 1, o))
        acc.case(text, True, outcome='filler', sample={'text': text})
    mf = e2.run_texts(ftexts, ev_filler, seed, setup=_setup)
    viols += mf['viol']
    vc.update(mf['viol_count'])
    n_eval += mf['extra']['format_calls']
    n_dist += mf['distinct']
    samples += mf['samples'][:2]
    report.append({'label': 'every gap of every seed x every filler of <= 3 elements over {blank, /*c*/, /*+h*/, --c LF} '
                            'x strip_comments alone / with strip_whitespace / with reindent',
                   'scripts': mf['n'], 'option_sets': len(f_opts), 'format_calls': mf['extra']['format_calls']})
    cov = {
        'evaluations': n_eval, 'distinct_nontrivial': n_dist,
        'rule': 'cases = (seed derivation, <= d deviations among derivation alternatives / comments of 8 kinds in '
                'any gap / literal spellings / uniform styles) x targeted option sets (strip_comments, '
                'keyword_case x3, identifier_case x3, truncate_strings {2,5,3+custom marker}), alone, in pairs, '
                'and combined with layout options. evaluations = format() calls; distinct = distinct script '
                'texts (hashed bitmap, lower bound); every script is a full statement.',
        'samples': samples, 'exhaustive': True, 'blocks': report,
        'oracle': 'expected output signature computed from the INPUT signature by a reference transformer (drop '
                  'non-hint comments; map case of Keyword tokens / of Name and non-double-quoted Symbol tokens; '
                  'truncate String.Single longer than N to N chars + marker) must equal the signature of the '
                  're-lexed output; targeted-only option sets must be idempotent on exact text',
    }
    return core.Result('C08', 'exploration', cov, violations=viols, viol_count=vc,
                       assumptions=['verification grammar as program space', 'capitalize = str.capitalize',
                                    'comments compared modulo the serializer line normalisation'])


def replay(case):
    import sqlparse
    o = case.get('opts') or {}
    layout_keys = set(k for k, _ in options.LAYOUT)
    bad = check_case(sqlparse, case['text'], o, not any(k in layout_keys for k in o))
    return {'text': case['text'], 'opts': o, 'violation': bool(bad), 'observed': bad}
