"""C18 Statement.get_type() names the leading DML/DDL keyword - E2 full product."""
import itertools

from vlib import core, oracles
from vlib.grammar import recase

PREFIX = ['', ' ', '\n', '\t\n ', '/* c */', '/* c */ ', '-- c\n', '--c\n\n  ', '/* a */ -- b\n /* c */\n', '# c\n',
          '/*+ h */ ', '\r\n', '/**/',
          # whitespace beyond blank/tab/line ends (what \\s and str.isspace() accept)
          '\xa0', '\u2028', '\x1c', '\u3000', '\x85 ', '\x0b', '\x0c\n',
          # line comments and hints ended by each kind of line end
          '-- c\r', '--+ h\r', '--+ h\n', '--+ h\r\n', '# + h\r', '/* a */--+ h\r']
CASES = ['lower', 'upper', 'title', 'alt']
# continuation after the head keyword: (text, kind) - kind names the cube for known findings
CONT = [(' x', 'blank+name'), (' 1', 'blank+number'), (' *', 'blank+star'), (' (a)', 'blank+paren'),
        ('', 'eos'), (';', 'semicolon'), (' "q"', 'blank+quoted'), (" 's'", 'blank+string'), ('\n x', 'newline+name'),
        ('\tx', 'tab+name'), (' /* c */ x', 'comment+name'), ('/* c */x', 'tight-comment+name'), (' x;', 'name+semicolon'),
        (' from t', 'from'), (' into t values (1)', 'into'), (' table t', 'table'), (' t set a = 1', 'set'),
        (' ,', 'blank+comma'), (' [1]', 'blank+bracket'), (' -1', 'blank+negative'), (' x.y', 'blank+dotted'),
        (' x::int', 'blank+cast'),
        # the head keyword directly followed by a character that changes how the word itself is lexed
        ('(1)', 'tight-paren'), ('.x', 'tight-period'), ('::int', 'tight-cast'), (' .x', 'blank-period'),
        ('[1]', 'tight-bracket'), (',', 'tight-comma'), ("'s'", 'tight-string'), ('"q"', 'tight-quoted'),
        ('--c\nx', 'tight-line-comment')]
INNER = [' ', '  ', '\n', '\t', '\r\n', ' \n ']
NON_HEADS = ['foo', '1', '(select 1)', 'begin', 'grant', 'set', 'show', 'explain', 'values', 'end', 'from', 'as',
             'analyze', 'rollback', 'use']
DML = ['select', 'insert', 'update', 'delete', 'merge']
# what may stand between the CTE definitions and the statement keyword
GAPS = [' ', '\n', ' /* a */ ', ' /* a */ /* b */ ', ' -- a\n', ' /* a */ -- b\n ', ' /* a */\n/* b */\n', '/* a */', ' /*+ h */ ',
        ' -- a\n -- b\n', '']


def heads():
    """all single-word DML / DDL keywords of the tables, found by my own walk over the dictionaries"""
    from sqlparse import keywords, tokens as T
    tables = [keywords.KEYWORDS_COMMON, keywords.KEYWORDS_ORACLE, keywords.KEYWORDS_MYSQL, keywords.KEYWORDS_PLPGSQL,
              keywords.KEYWORDS_HQL, keywords.KEYWORDS_MSACCESS, keywords.KEYWORDS_SNOWFLAKE,
              keywords.KEYWORDS_BIGQUERY, keywords.KEYWORDS]
    seen, out = set(), []
    for tb in tables:
        for w in tb:
            if w in seen:
                continue
            seen.add(w)
            if tb[w] in (T.Keyword.DML, T.Keyword.DDL) and w.isalpha():
                out.append(w.lower())
    return sorted(out)


# the statement types the library documents through its keyword tables at the pinned commit; a word that
# stops being typed DML/DDL is a violation, a word that newly is one is tested as well
PINNED_HEADS = ['alter', 'commit', 'create', 'delete', 'drop', 'insert', 'merge', 'replace', 'rollback', 'select',
                'start', 'truncate', 'update', 'upsert']


def cases(tier):
    hs = sorted(set(PINNED_HEADS) | set(heads()))
    for h in hs:
        for pre, cs, (cont, ck) in itertools.product(PREFIX, CASES, CONT):
            yield {'text': pre + recase(h, cs) + cont, 'expect': h.upper(), 'cube': f'head=dml-ddl|cont={ck}'}
    for inner1, inner2 in itertools.product(INNER, INNER if tier == 'thorough' else INNER[:3]):
        for pre, cs, (cont, ck) in itertools.product(PREFIX[:7], CASES, CONT):
            if ck.startswith('tight') and ck not in ('tight-comment+name',):
                continue
            kw = recase('create', cs) + inner1 + recase('or', cs) + inner2 + recase('replace', cs)
            yield {'text': pre + kw + ' view v as select 1' if cont == ' x' else pre + kw + cont,
                   'expect': 'CREATE OR REPLACE', 'cube': f'head=create-or-replace|cont={ck}'}
    for nh in [w for w in NON_HEADS if w not in hs]:
        for pre, cs in itertools.product(PREFIX, CASES):
            for cont in (' x', '', ';', ' select 1', '\nselect 1'):
                yield {'text': pre + recase(nh, cs) + cont, 'expect': 'UNKNOWN', 'cube': 'head=non-dml'}
    for pre in PREFIX:
        yield {'text': pre, 'expect': None, 'cube': 'head=empty'}   # no statement or UNKNOWN
    # WITH statements
    ctes = ['c as (select 1)', 'c(a, b) as (select 1, 2)', 'c as (select x from (select 1 x) y where x in (1, 2))',
            '"q r" as (select 1)', '`q` as (select 1)', '"q"as(select 1)', '[q] as (select 1)', 'c as(select 1)',
            'c as not materialized (select 1)']
    # what stands between WITH [RECURSIVE] and the first CTE name ('' only before a quoted name)
    joins = [' ', '', '\n', '\t', '/* c */', ' /* c */ ', ' -- c\n']
    for n in (1, 2, 3):
        for combo in itertools.product(ctes[:8] if n == 1 else ctes[:5] if n == 2 else ctes[:2], repeat=n):
            for rec in ('', ' recursive'):
                for sep in (', ', ',', ',\n'):
                    for body in DML + ['foo', '(select 1)', '']:
                        for cs in (CASES if n == 1 else CASES[:2]):
                            for pre in (PREFIX[:5] if n == 1 else PREFIX[:2]):
                                w = recase('with', cs) + (recase(rec, cs))
                                tail = {'select': ' * from c', 'insert': ' into t select * from c',
                                        'update': ' t set a = 1', 'delete': ' from t', 'merge': ' into t using c on 1 = 1',
                                        'foo': ' bar', '(select 1)': '', '': ''}[body]
                                for gap in GAPS if (n == 1 and cs == 'lower' and pre in ('', ' ')) else GAPS[:1]:
                                    g2 = gap if body else ''
                                    for j in (joins if (n == 1 and pre == '') or (n == 2 and cs == 'lower' and pre == '') else joins[:1]):
                                        if j == '' and combo[0][0] not in '"`[':
                                            continue
                                        if j != ' ' and gap != GAPS[0] and gap != '':
                                            continue
                                        text = pre + w + j + sep.join(combo) + g2 + recase(body, cs) + tail
                                        exp = body.upper() if body in DML else 'UNKNOWN'
                                        yield {'text': text, 'expect': exp,
                                               'cube': f'head=with|ctes={n}|rec={"yes" if rec else "no"}|body={body or "none"}|gap={GAPS.index(gap)}|join={joins.index(j)}'}
                                continue
                                text = pre + w + ' ' + sep.join(combo) + (' ' if body else '') + recase(body, cs) + tail
                                exp = body.upper() if body in DML else 'UNKNOWN'
                                yield {'text': text, 'expect': exp,
                                       'cube': f'head=with|ctes={n}|rec={"yes" if rec else "no"}|body={body or "none"}'}
                    if n > 1:
                        break


def check(sqlparse, case):
    try:
        stmts = sqlparse.parse(case['text'])
    except Exception as e:  # noqa
        return ('parse-exception', oracles.crash_site(e), repr(e)[:100])
    if case['expect'] is None:
        if stmts and [s.get_type() for s in stmts] != ['UNKNOWN'] * len(stmts):
            return ('type-wrong', 'empty', f'{[s.get_type() for s in stmts]}')
        return None
    if not stmts:
        return ('no-statement', 'none', case['text'])
    try:
        got = stmts[0].get_type()
    except Exception as e:  # noqa
        return ('get_type-exception', oracles.crash_site(e), repr(e)[:100])
    if got != case['expect']:
        return ('type-wrong', f'{case["expect"] if case["expect"] in ("UNKNOWN", "CREATE OR REPLACE") else "KEYWORD"}->'
                              f'{got if got in ("UNKNOWN",) else "OTHER"}', f'get_type() == {got!r}, expected {case["expect"]!r}')
    return None


def run(tier, seed):
    cs = core.rotate(list(cases(tier)), seed)

    def work(chunk):
        import sqlparse
        from sqlparse import lexer, tokens as T
        # a caller's own Lexer with other ideas about the head words has lexed them before: the default parser's
        # classification is its own
        lexer.Lexer.get_default_instance()          # the default lexer exists already (a long-running process)
        own2 = lexer.Lexer()
        own2.clear()
        own2.set_SQL_REGEX([(r'\w+', T.Keyword.DML), (r'\s+', T.Whitespace)])
        list(own2.get_tokens(' '.join(NON_HEADS)))
        own = lexer.Lexer()
        own.default_initialization()
        own.add_keywords({w.upper(): T.Name for w in PINNED_HEADS})
        own.add_keywords({'FOO': T.Keyword.DML, 'REFRESH': T.Keyword.DDL, 'WITH': T.Name})
        list(own.get_tokens(' '.join(PINNED_HEADS + NON_HEADS + ['with', 'refresh', 'recursive'])))
        acc = core.Acc(bits=24)
        for case in chunk:
            bad = check(sqlparse, case)
            acc.case(case['text'], True, outcome=case['cube'].split('|')[0], sample=case)
            if bad:
                v = dict(case)
                v.update({'kind': bad[0], 'sig': f'{bad[1]}|{case["cube"]}', 'detail': bad[2], 'size': len(case['text'])})
                acc.violation(v)
        return acc.dump()
    merged = core.merge(core.pmap(work, core.chunked(cs, core.NPROC * 8)))
    cov = {
        'evaluations': merged['n'], 'distinct_nontrivial': merged['distinct'],
        'rule': 'FULL PRODUCT head (every single-word DML/DDL keyword of the nine tables; CREATE OR REPLACE with every '
                'inner-whitespace spelling; 15 non-DML heads; WITH [RECURSIVE] with 1-3 CTEs of 4-5 forms x separator x '
                'each DML / non-DML body) x 13 whitespace/comment prefixes x 4 letter casings x 31 continuations. Every '
                'case is non-trivial; distinct by text (hashed bitmap, lower bound).',
        'samples': merged['samples'][:6], 'exhaustive': True, 'outcomes': dict(merged['outcomes']),
        'heads': heads(),
        'oracle': 'get_type() of the first statement == the written head keyword upper-cased and single-blanked; the DML '
                  'keyword after the CTE definitions for WITH; UNKNOWN otherwise',
    }
    return core.Result('C18', 'exploration', cov, violations=merged['viol'], viol_count=merged['viol_count'],
                       assumptions=['DML/DDL head words are taken from the keyword tables of the tree under test'])


def replay(case):
    import sqlparse
    bad = check(sqlparse, case)
    return {'text': case['text'], 'violation': bool(bad), 'observed': bad}
