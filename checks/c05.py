"""C05 statements end exactly at top-level semicolons; opaque regions never split - E2 + E1 + E3."""
import itertools
import re as _re

from vlib import core, oracles, grammar, explore, splitmodel as sm

SEPS = grammar.SEPS
FINALS = ['', ';', ';\n', '; -- c', ' ; ']


def _nocomment_sig(text):
    return [v for v in oracles.sig(text) if not v.startswith(('/*', '--', '#'))]


def check_script(sqlparse, stmts, seps, fin):
    """stmts: list of statement texts (no trailing semicolon)."""
    text = ''.join(s + sep for s, sep in zip(stmts, seps + [fin]))
    try:
        pieces = sqlparse.split(text)
        n_parse = len(sqlparse.parse(text))
    except Exception as e:  # noqa
        return text, ('split-exception', oracles.crash_site(e), repr(e)[:120])
    k = len(stmts)
    if len(pieces) != k or n_parse != k:
        return text, ('statement-count', f'{k}->{len(pieces)}', f'split gave {len(pieces)} / parse {n_parse} statements: {pieces!r:.300}')
    for i, (p, s) in enumerate(zip(pieces, stmts)):
        want = _nocomment_sig(s)
        got = _nocomment_sig(p)
        if got and got[-1] == ';':
            got = got[:-1]
        if got != want:
            return text, ('piece-tokens', f'piece{i}', f'piece {i} = {p!r:.200}, statement = {s!r:.200}')
    return text, None


def seed_texts():
    out = []
    for si in range(len(grammar.SEEDS)):
        b, _ = explore.run(lambda c, si=si: grammar.build_stmt(c, si), {}, set())
        out.append(b.text())
    return out


def script_cases(tier):
    texts = seed_texts()
    short = [t for t in texts if len(t) < 45][:14]
    cases = []
    # every ordered pair of seeds x every separator x every final
    for a, b in itertools.product(range(len(texts)), repeat=2):
        for sep in SEPS:
            for fin in (FINALS if tier == 'thorough' else FINALS[:2]):
                cases.append(([texts[a], texts[b]], [sep], fin))
    # every ordered triple of short seeds x separator pairs within one deviation from the default (thorough: all pairs)
    for tri in itertools.product(range(len(short)), repeat=3):
        if tier == 'thorough':
            seps = list(itertools.product(SEPS, repeat=2))
        else:
            seps = [(SEPS[0], SEPS[0])] + [(s, SEPS[0]) for s in SEPS[1:]] + [(SEPS[0], s) for s in SEPS[1:]]
        for sp in seps:
            cases.append(([short[i] for i in tri], list(sp), ';'))
    return cases


def deviated_statement_cases(tier):
    """statements within one derivation/literal/comment deviation of each seed, as first and as second statement"""
    fams = {'der', 'lit', 'cm'}
    cases = []
    base = 'select 1'
    for si in range(len(grammar.SEEDS)):
        for over, b, d in explore.cases_within(lambda c, si=si: grammar.build_stmt(c, si), fams, 1):
            t = b.text()
            if _re.search(r'(--|# )[^\n]*$', t):
                t += '\n'          # a line comment at the end of the statement needs its line end before the separator
            # a comment at the statement edge legitimately belongs to either neighbour; keep the statement's own text
            cases.append(([t, base], ['; '], ';'))
            cases.append(([base, t], [';\n'], ''))
    return cases


# ---------------------------------------------------------------- opaque regions
BODY = [';', "'", '"', '$', '(', ')', '-', '/', '*', '\n', ' ', 'a', 'BEGIN', 'END', '`', ',', '--', '/*', 'CASE', ';;', '\\',
        'END CASE', 'END LOOP']
REGIONS = [
    # name, opener, closer, forbidden fragments in the body, forbidden substrings of the joined body
    ('single-quoted', "'", "'", ("'",), ("'",)),
    ('double-quoted', '"', '"', ('"',), ('"',)),
    ('back-quoted', '`', '`', ('`',), ('`',)),
    ('dollar', '$$', '$$', ('$',), ('$$',)),
    ('dollar-tag', '$t$', '$t$', ('$',), ('$t$',)),
    ('block-comment', '/*', '*/', (), ('*/',)),
    ('line-comment', '--', '\n', ('\n',), ('\n', '\r')),
    ('parenthesis', '(', ')', ("'", '"', '$', '(', ')', '`', '--', '/*', '-', '/', '*'), ()),
    # a T-SQL bracketed name (a quoted identifier; not behind a word, ']' or ')', where brackets are a subscript)
    ('bracketed-name', '[', ']', ('(', ')', '--', '/*', '-', '/', '*', '\n'), ('[', ']')),
]
HOSTS = [
    # (name, template with {R}, index of the statement holding the region, k statements)
    ('select-item', 'select {R} from t; select 2', 2),
    ('where-operand', 'select 1 from t where a = {R}; select 2;', 2),
    ('first-token', '{R} select 1; select 2', 2),
    ('second-statement', 'select 0; select {R} , b from t; select 2', 3),
    ('inside-paren', 'insert into t values (1, {R}); select 2', 2),
    ('after-case', 'select case when a then 1 end, {R} from t; select 2', 2),
    ('tight-after-operator', 'select 1+{R}; select 2', 2),
    ('tight-after-name', 'select a{R}; select 2', 2),
    # the region's closer glued to what follows
    ('glued-before-word', 'select {R}x from t; select 2', 2),
    ('glued-before-keyword', 'select {R}AS c; select 2', 2),
    ('glued-before-number', 'select 1 from t where a = {R}1; select 2', 2),
]


def region_cases(tier):
    n = 3 if tier == 'quick' else 4
    for rname, op, cl, forb_frag, forb_sub in REGIONS:
        alpha = [f for f in BODY if f not in forb_frag]
        for k in range(0, n + 1):
            for body in itertools.product(alpha, repeat=k):
                bt = ''.join(body)
                if any(s in bt for s in forb_sub):
                    continue
                if rname in ('single-quoted', 'double-quoted') and bt.endswith('\\'):
                    continue          # a backslash directly before the closing quote escapes it (that is the terminator rule)
                yield rname, op + bt + cl


def check_region(sqlparse, host, region):
    hname, tmpl, k = host
    text = tmpl.format(R=region)
    exp = [p.strip() for p in _split_template(tmpl, region)]
    try:
        pieces = sqlparse.split(text)
        n_parse = len(sqlparse.parse(text))
    except Exception as e:  # noqa
        return text, ('split-exception', oracles.crash_site(e), repr(e)[:120])
    if pieces != exp or n_parse != len(exp):
        how = 'more' if len(pieces) > len(exp) else ('fewer' if len(pieces) < len(exp) else 'same-count')
        return text, ('region-not-opaque', how, f'split gave {pieces!r:.300}, expected {exp!r:.300}')
    return text, None


def _split_template(tmpl, region):
    """expected pieces: the template is cut at its own top-level semicolons (those outside {R})"""
    parts = tmpl.split('{R}')
    out, cur = [], ''
    for i, part in enumerate(parts):
        segs = part.split(';')
        for j, seg in enumerate(segs):
            cur += seg
            if j < len(segs) - 1:
                out.append(cur + ';')
                cur = ''
        if i < len(parts) - 1:
            cur += region
    if cur.strip():
        out.append(cur)
    return out


def run(tier, seed):
    import sqlparse  # noqa
    # ---- (i) scripts
    cases = core.rotate(script_cases(tier) + deviated_statement_cases(tier), seed)

    def work_scripts(chunk):
        import sqlparse as sp
        acc = core.Acc(bits=24)
        for stmts, seps, fin in chunk:
            text, bad = check_script(sp, stmts, seps, fin)
            acc.case(text, True, outcome=f'{len(stmts)} statements', sample={'script': text})
            if bad:
                sepclass = '+'.join(sorted({_sepclass(s) for s in seps}))
                acc.violation({'kind': bad[0], 'sig': f'{bad[1]}|sep={sepclass}', 'detail': bad[2], 'text': text,
                               'stmts': stmts, 'seps': seps, 'final': fin, 'size': len(text)})
        return acc.dump()
    m1 = core.merge(core.pmap(work_scripts, core.chunked(cases, core.NPROC * 8)))

    # ---- (ii) opaque regions
    regs = core.rotate(list(region_cases(tier)), seed)

    def work_regions(chunk):
        import sqlparse as sp
        acc = core.Acc(bits=24)
        for rname, region in chunk:
            for hi, host in enumerate(HOSTS):
                if tier == 'quick' and len(region) > 7 and hi % 2:
                    continue          # longest bodies: every second host position in the quick tier
                if rname in ('dollar', 'dollar-tag', 'bracketed-name') and host[0] == 'tight-after-name':
                    continue      # '$' directly after a word character continues the word (documented look-behind)
                if rname == 'bracketed-name' and len(region) == 2:
                    continue      # '[]' is no name
                text, bad = check_region(sp, host, region)
                acc.case(text, ';' in region or 'BEGIN' in region or 'END' in region, outcome=rname,
                         sample={'host': host[0], 'text': text})
                if bad:
                    acc.violation({'kind': bad[0], 'sig': f'{bad[1]}|region={rname}|host={host[0]}', 'detail': bad[2],
                                   'text': text, 'region': region, 'host': host[0], 'size': len(text)})
        return acc.dump()
    m2 = core.merge(core.pmap(work_regions, core.chunked(regs, core.NPROC * 8)))

    # ---- (iii) product automaton restricted to plain statements, ';' inside parentheses must not split
    ref = sm.Ref(0, plain_only=True, semicolon_in_parens=True)
    real = sm.Real()
    res = sm.explore(ref, real)
    viols3 = []
    import collections
    vc3 = collections.Counter()
    for v in res['violations']:
        ps, ev, nxt = v['edge']
        tr = sm.trace_to(res['parent'], ps)
        events = [e for e, _, _, _ in tr] + [ev]
        lab = sm.root_cause(tr)
        vc3[('automaton-' + v['kind'], lab)] += 1
        viols3.append({'kind': 'automaton-' + v['kind'], 'sig': lab, 'events': events, 'text': sm.render(events, 0),
                       'detail': f'real state {dict(zip(real.attrs, ps[1]))}', 'size': len(events)})
    viols = m1['viol'] + m2['viol'] + viols3
    vc = m1['viol_count']
    vc.update(m2['viol_count'])
    vc.update(vc3)
    cov = {
        'evaluations': m1['n'] + m2['n'], 'distinct_nontrivial': m1['distinct'] + m2['distinct'],
        'rule': '(i) every ordered pair of the 41 seed statements x every separator filler (12) x final filler, every '
                'ordered triple of 14 short seeds x separator fillers, and every statement within one derivation / '
                'literal / comment deviation of a seed as first and as second statement; (ii) 8 region kinds x EVERY '
                'body of <= 3 (thorough 4) fragments over a 20-fragment body alphabet that lacks the region\'s '
                'terminator x 8 host positions; (iii) all reachable states of the plain-statement product automaton '
                '(parentheses, CASE ... END, ";" inside parentheses). Non-trivial = script (i) / body containing ";", '
                'BEGIN or END (ii); distinct by text (hashed bitmap, lower bound).',
        'samples': m1['samples'][:3] + m2['samples'][:3], 'exhaustive': True,
        'scripts': m1['n'], 'region_cases': m2['n'], 'region_outcomes': dict(m2['outcomes']),
        'automaton': {'states': len(res['parent']), 'transitions': res['transitions'],
                      'semicolon_edges': res['semicolon_edges']},
        'oracle': '(i) split() and parse() return exactly k statements and piece i carries statement i\'s significant '
                  'tokens (comments between statements may stay with either neighbour); (ii) the pieces are exactly the '
                  'host cut at its own top-level semicolons, whatever the body; (iii) real split decision == reference '
                  'on every ";" edge',
    }
    return core.Result('C05', 'exploration', cov, violations=viols, viol_count=vc,
                       assumptions=['verification grammar as program space', 'region bodies over the stated alphabet'])


def _sepclass(s):
    if '/*' in s:
        return 'block-comment'
    if '--' in s:
        return 'line-comment'
    if '\n' in s or '\r' in s:
        return 'newline'
    return 'blank'


def replay(case):
    import sqlparse
    if 'stmts' in case:
        _, bad = check_script(sqlparse, case['stmts'], case['seps'], case['final'])
    elif 'region' in case:
        host = [h for h in HOSTS if h[0] == case['host']][0]
        _, bad = check_region(sqlparse, host, case['region'])
    else:
        real = sm.Real()
        ref = sm.Ref(0, plain_only=True, semicolon_in_parens=True)
        res = sm.explore(ref, real)
        bad = ('automaton', len(res['violations'])) if res['violations'] else None
    return {'text': case.get('text'), 'violation': bool(bad), 'observed': bad}
