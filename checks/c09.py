"""C09 bracketed/block groups are the matched pairs - E1 against a reference stack matcher."""
from vlib import core, e1, oracles, spaces

D1CORE = ['a', ' ', ',', '(', ')', '[', ']', 'case', 'end', 'if', 'end if', 'for', 'end loop',
          'begin', 'as', '::', '--c\n', '/*c*/', '=', '.', 'where', ';']
NEST = ['(', ')', 'case', 'end', 'begin', 'a[', ']', 'for', 'end loop']
BR = ['(', ')', '[', ']', 'case', 'end', 'if', 'end if', 'for', 'end loop', 'begin', 'a', 'where']


def _spaces(tier):
    if tier == 'quick':
        return [('D1core<=4 raw', D1CORE, 4, ''), ('D1core<=4 blank', D1CORE, 4, ' '),
                ('BR<=4 blank', BR, 4, ' '), ('BR<=5 raw', BR, 5, ''), ('D1<=3 raw', spaces.D['D1'], 3, ''),
                ('NEST<=6 blank', NEST, 6, ' ')]
    return [('NEST<=7 blank', NEST, 7, ' '), ('D1core<=5 raw', D1CORE, 5, ''), ('D1core<=5 blank', D1CORE, 5, ' '),
            ('BR<=6 blank', BR, 6, ' '), ('BR<=6 raw', BR, 6, ''), ('D1<=4 raw', spaces.D['D1'], 4, ''),
            ('U<=3 raw', spaces.U, 3, ''), ('U<=3 blank', spaces.U, 3, ' '),
            ('D6<=4 blank', spaces.D['D6'], 4, ' ')]


def attach_cases():
    """full product: kind x inner content ending in a middle token x comment attached after the closer x what follows
    (later passes must never pull a group's own delimiter into another node, also once comments are attached)"""
    import itertools
    kinds = [('(', ')'), ('[', ']'), ('case', 'end'), ('if', 'end if'), ('for', 'end loop'), ('begin', 'end'),
             ('IF', 'END\nIF'), ('foreach', 'end\tloop'), ('If', 'End  If'), ('CASE', 'END')]
    inner = ['x', 'x ,', 'x as', 'x ::', 'x :=', 'x =', 'x .', 'x , y ,', '1 ,', 'x where y', '', 'x , 1 +', 'x and',
             # words that mean something else after an opener elsewhere (FOR UPDATE, IF EXISTS, CASE-less WHEN, BEGIN WORK)
             'update', 'share x', 'exists x', 'not exists', 'when x then', 'work', 'transaction ;', 'each row']
    trail = ['', '--c\n', ' /*c*/', '/*c*/', ' --c\n', '\n--c\n', ' /*c*/ /*d*/']
    follow = ['', 'x', ', x', '; x', ' x', ' as y', ' = 1']
    prefix = ['', 'select ', '( ', 'a ']
    out = []
    for (o, c), i, t, f, p in itertools.product(kinds, inner, trail, follow, prefix):
        out.append((p, o, ' ' + i + ' ' if i else ' ', c, t, f))
    return out


def deep_cases(tier):
    """a pair of every kind below d nested groups of every kind, d up to far beyond any fragment bound (a matcher
    that stops descending at some depth, or loses a level per kind, shows only there)"""
    kinds = [('(', ')'), ('a[', ']'), ('case', 'end'), ('if', 'end if'), ('for', 'end loop'), ('begin', 'end')]
    depths = [1, 2, 3, 7, 31, 63, 64, 65, 99, 100, 101, 102, 127, 128, 129, 150] + ([200, 249] if tier == 'thorough' else [])
    out = []
    for (oo, oc), (io, ic), d in __import__('itertools').product(kinds, kinds, depths):
        out.append(((oo + ' ') * d, io + ' x ' + ic, (' ' + oc) * d))
        if d <= 101:
            out.append(((oo + ' ') * (d // 2) + '( ' * (d - d // 2), io + ' ' + ic, ' )' * (d - d // 2) + (' ' + oc) * (d // 2)))
    return out


def _setup():
    import sqlparse
    return sqlparse


def _evaluate(text, frags, space, acc, sqlparse):
    try:
        stmts = sqlparse.parse(text)
        bad = oracles.check_c09(stmts)
    except sqlparse.exceptions.SQLParseError:
        acc.case(text, False, outcome='SQLParseError')
        return
    except Exception as e:  # noqa
        acc.case(text, False, outcome='exception')
        acc.violation(e1.viol('parse-exception', oracles.crash_site(e), repr(e)[:200], text, frags, space))
        return
    n = 0
    for s in stmts:
        n += len(oracles.real_spans(s)[0])
    acc.case(text, n > 0, outcome=f'{min(n, 3)} matched group(s)', sample=text)
    if bad:
        acc.violation(e1.viol(bad[0], str(bad[1]), bad[2], text, frags, space))


def run(tier, seed):
    merged, sizes = e1.run(_spaces(tier), _evaluate, seed, bits=26 if tier == 'thorough' else 23,
                           setup=_setup, extra_cases=[('ATTACH product', attach_cases(), ''), ('DEEP kind x kind x depth', deep_cases(tier), '')])
    cov = {
        'evaluations': merged['n'], 'distinct_nontrivial': merged['distinct'],
        'rule': 'every sequence of 1..n fragments over the bracket/block drivers (D1core, BR, D1, D6) '
                'and U, raw and blank-joined, balanced or not. Non-trivial = the real tree contains at '
                'least one Parenthesis/SquareBrackets/Case/If/For/Begin node; distinct = distinct '
                'texts (hashed bitmap, lower bound).',
        'samples': merged['samples'][:8], 'exhaustive': True, 'spaces': sizes,
        'outcomes': dict(merged['outcomes']),
        'oracle': 'reference model = staged textbook stack matcher over the leaf tokens (kinds in the '
                  'order SquareBrackets, Parenthesis, Case, If, For, Begin; each kind matched inside, '
                  'never across, groups of earlier kinds; unmatched closers ignored). The set of '
                  '(kind, first leaf, last leaf ignoring trailing attached comments) of the real tree '
                  'must equal the reference set on EVERY input, and each node must start with its '
                  'opener leaf and end (before attached comments) with its closer leaf.',
    }
    return core.Result('C09', 'exploration', cov, violations=merged['viol'], viol_count=merged['viol_count'],
                       assumptions=['the reference matcher in vlib/oracles.py (written from the property text)',
                                    'multi-word closers compared with inner blanks collapsed'])


def replay(case):
    import sqlparse
    try:
        bad = oracles.check_c09(sqlparse.parse(case['text']))
    except sqlparse.exceptions.SQLParseError:
        bad = None
    except Exception as e:  # noqa
        bad = ('parse-exception', oracles.crash_site(e), repr(e))
    return {'text': case['text'], 'violation': bool(bad), 'observed': bad}
