"""C20 results depend only on input and options: no call-history, no thread effects - E5 schedules + E6 histories."""
import collections
import gc
import inspect
import io
import itertools
import json
import os
import subprocess
import sys

from vlib import core, oracles, sched, digest

PROBE = 'select foo, map from bar where x like 1 limit 2; create table t (c int)'


# ============================================================== probe suite / reference

def _tree(stmts):
    return [oracles.shape([s])[0] for s in stmts], [str(s) for s in stmts]


def probe_suite():
    """8 calls covering all entry points, words of all nine keyword tables, all filters. JSON-able result."""
    import sqlparse
    from sqlparse import lexer
    words = 'select oracle_word pivot mysql_word engine plpgsql_word conflict hql_word cluster msaccess_word ' \
            'distinctrow snowflake_word account bigquery_word tablesample window map foo'
    out = {}
    out['tokens'] = [[oracles.tname(tt), v] for tt, v in lexer.tokenize(words + " 'a' \"b\" /* c */ -- d\n $$e$$ 1.5 ?")]
    out['parse'] = json.loads(json.dumps(_tree(sqlparse.parse(PROBE))))
    out['parsestream'] = [str(s) for s in sqlparse.parsestream(io.StringIO(PROBE))]
    out['split'] = sqlparse.split(PROBE, strip_semicolon=True)
    out['format1'] = sqlparse.format('select a, b from t where x = 1 and y in (select 1) -- c\n; insert into t values (1)',
                                     reindent=True, keyword_case='upper', identifier_case='upper', strip_comments=True)
    out['format2'] = sqlparse.format("select case when a then 'long string' else b end x, c+d from t join u on a=b",
                                     reindent_aligned=True, use_space_around_operators=True, truncate_strings=3)
    out['format3'] = sqlparse.format('select 1; select 2', output_format='python', strip_whitespace=True)
    out['format4'] = sqlparse.format('select 1; select 2', output_format='php', reindent=True, comma_first=True,
                                     wrap_after=5, indent_tabs=True)
    out['bytes'] = [str(s) for s in sqlparse.parse('select é'.encode('utf-8'))]
    # the same text again right after a partially consumed run on it (anything cached per input must be complete)
    # (an invariant checked inside the probe, because the reference interpreter would run the same sequence)
    t1, t2 = words + ' again', PROBE + ';select 3'
    plain_tokens = list(lexer.tokenize(t1))
    plain_parse = [str(s) for s in sqlparse.parse(t2)]
    list(lexer.tokenize('something else'))
    g = lexer.tokenize(t1)
    next(g)
    again_tokens = list(lexer.tokenize(t1))
    sqlparse.parse('something else')
    g2 = sqlparse.parsestream(t2)
    next(g2)
    again_parse = [str(s) for s in sqlparse.parse(t2)]
    out['invariant_same_text_after_partial_run'] = (again_tokens == plain_tokens and again_parse == plain_parse
                                                    and sqlparse.split(t2) == [p.strip() for p in plain_parse])
    del g, g2
    # every filter alone, on inputs where it has something to do
    out['strip_comments'] = sqlparse.format('select a/*c*/b, c /* d */ from t -- e\nwhere x/* f */=1', strip_comments=True)
    out['spaces'] = sqlparse.format('select a+b, c from t where c=d and e<>f', use_space_around_operators=True)
    out['strip_ws'] = sqlparse.format('select  a ,  b\n from ( select 1 ) x', strip_whitespace=True)
    out['cases'] = sqlparse.format('Select Foo, "Bar" from Tbl', keyword_case='capitalize', identifier_case='lower')
    out['truncate'] = sqlparse.format("select 'abcdefgh', 'ab'", truncate_strings=4, truncate_char='~')
    out['reindent'] = sqlparse.format('select a, b, f(c, d) from t join u on x = y where a = 1 or b = 2 group by a', reindent=True)
    out['aligned'] = sqlparse.format('select a, b from t join u on x = y where a = 1 or b = 2 order by a', reindent_aligned=True)
    return out


def reference():
    """probe suite in a genuinely fresh interpreter"""
    code = ("import sys, json; sys.path.insert(0, %r); sys.path.insert(0, %r); sys.dont_write_bytecode = True\n"
            "from checks import c20; print(json.dumps(c20.probe_suite()))" % (core.REPO, core.VERIF))
    r = subprocess.run([sys.executable, '-B', '-c', code], capture_output=True, text=True, timeout=120,
                       env=dict(os.environ, VERIF_REPO=core.REPO))
    if r.returncode != 0:
        raise RuntimeError('reference interpreter failed: ' + r.stderr[-500:])
    return json.loads(r.stdout.strip().splitlines()[-1])


def probe_diff(ref):
    try:
        got = json.loads(json.dumps(probe_suite()))
    except Exception as e:  # noqa
        return f'probe suite raised {oracles.crash_site(e)}: {e!r:.100}'
    for k in got:
        if k.startswith('invariant_') and got[k] is not True:
            return f'{k} is {got[k]!r}'
    for k in ref:
        if got.get(k) != ref[k]:
            return f'{k}: {json.dumps(got.get(k))[:160]} != {json.dumps(ref[k])[:160]}'
    return None


# ============================================================== E6 histories

def _ops():
    import sqlparse
    from sqlparse import lexer, tokens as T, keywords
    held = []

    def parse_ok():
        sqlparse.parse('select a from t where x = 1; update t set a = 2')

    def parse_raises():
        lim = sys.getrecursionlimit()
        try:
            sys.setrecursionlimit(120)
            try:
                sqlparse.parse('select ' + '(' * 300 + '1' + ')' * 300)
            except sqlparse.exceptions.SQLParseError:
                pass
            except RecursionError:
                pass
        finally:
            sys.setrecursionlimit(lim)

    def parse_bytes():
        sqlparse.parse(b'select \xe9 from t')
        sqlparse.parse('select é'.encode('utf-16'), encoding='utf-16')

    def parse_nontext():
        try:
            sqlparse.parse(12345)
        except TypeError:
            pass

    def split_strip():
        sqlparse.split('select 1; select 2;', strip_semicolon=True)

    def format_reindent():
        sqlparse.format('select a, b from t where x = 1; select 2 from u', reindent=True, comma_first=True)

    def format_aligned():
        sqlparse.format('select a, case when b then 1 else 2 end from t join u on x = y', reindent_aligned=True,
                        strip_comments=True)

    def format_python():
        sqlparse.format('select 1; select 2; select 3', output_format='python')

    def format_invalid():
        try:
            sqlparse.format('select 1', keyword_case='bogus')
        except sqlparse.exceptions.SQLParseError:
            pass

    def format_strip_comments_ws():
        sqlparse.format('a /*c*/', strip_comments=True, strip_whitespace=True)
        sqlparse.format('select a /* c */ , b -- d\n from t /* e */', strip_comments=True, reindent=True)

    def format_operators_ws():
        sqlparse.format('select a+\nb, c\n=d from t', use_space_around_operators=True, strip_whitespace=True)
        sqlparse.format('select a=b', use_space_around_operators=True)

    def stream_abandoned():
        g = sqlparse.parsestream('select 1; select 2; select 3')
        next(g)
        del g
        gc.collect()

    def stream_suspended():
        g = sqlparse.parsestream(io.StringIO('select 1; select 2; select 3'))
        next(g)
        held.append(g)

    def probe_texts_abandoned():
        # start, advance once and leave every streaming entry point on exactly the texts the probes use
        words = 'select oracle_word pivot mysql_word engine plpgsql_word conflict hql_word cluster msaccess_word ' \
                'distinctrow snowflake_word account bigquery_word tablesample window map foo'
        g1 = lexer.tokenize(words + " 'a' \"b\" /* c */ -- d\n $$e$$ 1.5 ?")
        next(g1)
        g2 = sqlparse.parsestream(PROBE)
        next(g2)
        g3 = sqlparse.parsestream(io.StringIO(PROBE))
        next(g3)
        held.extend([g1, g2])
        del g3

    def reconfigure_and_reset():
        lx = lexer.Lexer.get_default_instance()
        lx.clear()
        lx.set_SQL_REGEX(keywords.SQL_REGEX[:30] + keywords.SQL_REGEX[-5:])
        lx.add_keywords({'FOO': T.Keyword, 'BAR': T.Keyword.DML, 'ZORK': T.Name.Builtin})
        lx.add_keywords(keywords.KEYWORDS)
        sqlparse.parse('bar foo from zork select map limit 1')
        sqlparse.format('select foo from bar', keyword_case='upper')
        lx.default_initialization()

    def second_lexer():
        # a caller's own Lexer objects (and a subclass), configured differently and used, next to the default one
        lexer.Lexer.get_default_instance()
        l2 = lexer.Lexer()
        l2.clear()

        class MyLexer(lexer.Lexer):
            pass
        l4 = MyLexer()
        l4.default_initialization()
        l4.clear()
        l5 = lexer.Lexer()
        l5.clear()
        l5.set_SQL_REGEX(keywords.SQL_REGEX[:20])
        list(l5.get_tokens('select foo, map from bar'))
        l3 = lexer.Lexer()
        l3.default_initialization()
        l3.add_keywords({'FOO': T.Keyword, 'MAP': T.Name.Builtin, 'SELECT': T.Name, 'BAR': T.Keyword.DML})
        list(l3.get_tokens('select foo, map from bar where x like 1 limit 2; create table t (c int)'))
        held.extend([l2, l3, l4, l5])

    def edit_returned_trees():
        # what parse() / parsestream() returned belongs to the caller: edit it, run filters on it
        from sqlparse import filters
        for text in (PROBE, PROBE + ';select 3', 'select a, b from t where x = 1 and y in (select 1) -- c\n; insert into t values (1)'):
            for st in list(sqlparse.parse(text)) + list(sqlparse.parsestream(text)):
                for leaf in list(st.flatten())[:4]:
                    leaf.value = 'ZZ'
                filters.StripWhitespaceFilter().process(st)
                filters.ReindentFilter().process(st)
                del st.tokens[2:]
                held.append(st)

    def clear_and_reset():
        # back to the defaults without the reconfiguration steps in between, on the singleton and on an own object
        for lx in (lexer.Lexer.get_default_instance(), lexer.Lexer()):
            lx.set_SQL_REGEX(keywords.SQL_REGEX[:5])
            lx.default_initialization()
            list(lx.get_tokens('select foo'))
            lx.add_keywords({'FOO': T.Keyword})
            lx.default_initialization()
            list(lx.get_tokens('select foo'))
            lx.clear()
            lx.default_initialization()

    def format_overflows_inside_filter():
        # calls that run out of stack at every depth of the pipeline, among them inside each layout filter
        nested = 'select a from (' * 6 + 'select b, c from t join u on x = y where p = 1 or q = 2' + ') s' * 6
        base = len(inspect.stack())
        old = sys.getrecursionlimit()
        for opts in (dict(reindent_aligned=True), dict(reindent=True, comma_first=True)):
            # (measured: with this input parse() needs < 28 frames of head-room, the two filters up to 56-60)
            for room in range(26, 62, 4):
                try:
                    sys.setrecursionlimit(base + room)
                    sqlparse.format(nested, **opts)
                except sqlparse.exceptions.SQLParseError:
                    pass
                except RecursionError:
                    pass        # C15's subject; here only what the call leaves behind matters
                finally:
                    sys.setrecursionlimit(old)

    def cli_main():
        from sqlparse import cli
        old_out, old_in = sys.stdout, sys.stdin
        try:
            sys.stdout = io.StringIO()
            sys.stdin = io.TextIOWrapper(io.BytesIO(b'select 1, 2 from t'), encoding='utf-8')
            cli.main(['-', '-r', '-k', 'upper'])
        except SystemExit:
            pass
        finally:
            sys.stdout, sys.stdin = old_out, old_in

    def many_statements():
        sqlparse.format(';'.join('select %d' % i for i in range(12)), output_format='php', reindent=True)

    return collections.OrderedDict([
        ('parse', parse_ok), ('parse-raises', parse_raises), ('parse-bytes', parse_bytes),
        ('parse-nontext', parse_nontext), ('split-strip', split_strip), ('format-reindent', format_reindent),
        ('format-aligned', format_aligned), ('format-python', format_python), ('format-invalid', format_invalid),
        ('format-operators-ws', format_operators_ws), ('format-strip-comments-ws', format_strip_comments_ws),
        ('stream-abandoned', stream_abandoned),
        ('stream-suspended', stream_suspended), ('probe-texts-abandoned', probe_texts_abandoned), ('reconfigure-and-reset', reconfigure_and_reset), ('second-lexer', second_lexer),
        ('edit-returned-trees', edit_returned_trees), ('clear-and-reset', clear_and_reset),
        ('format-overflows-inside-filter', format_overflows_inside_filter),
        ('cli-main', cli_main), ('many-statements', many_statements)])


def run_history_forked(hist, ref):
    """run one history in a forked child (so the next history starts from the pristine state)"""
    r, w = os.pipe()
    pid = os.fork()
    if pid == 0:
        os.close(r)
        res = {'digest': None, 'diff': None, 'error': None}
        try:
            ops = _ops()
            for name in hist:
                try:
                    ops[name]()
                except Exception as e:  # noqa
                    res['error'] = f'operation {name} raised {oracles.crash_site(e)}: {e!r:.80}'
                    break
            res['digest'] = digest.global_digest()
            res['diff'] = probe_diff(ref)
        except BaseException as e:  # noqa
            res['error'] = repr(e)[:200]
        try:
            os.write(w, json.dumps(res).encode())
        finally:
            os._exit(0)
    os.close(w)
    data = b''
    while True:
        b = os.read(r, 65536)
        if not b:
            break
        data += b
    os.close(r)
    os.waitpid(pid, 0)
    if not data:
        return {'digest': None, 'diff': 'child died', 'error': 'child died'}
    return json.loads(data.decode())


def histories_part(tier, seed, ref):
    names = list(_ops())
    depth = 3
    hists = [h for k in range(0, depth + 1) for h in itertools.product(names, repeat=k)]
    if tier != 'quick':
        # depth 4 over the operations that touch process-wide state or leave something unfinished behind
        core_ops = ['parse-raises', 'format-invalid', 'stream-abandoned', 'stream-suspended', 'probe-texts-abandoned',
                    'reconfigure-and-reset', 'second-lexer', 'edit-returned-trees', 'clear-and-reset',
                    'format-overflows-inside-filter', 'cli-main']
        hists += list(itertools.product(core_ops, repeat=4))
    hists = core.rotate(hists, seed)

    def work(chunk):
        import sqlparse  # noqa  (warm parent of the forked children)
        out = []
        for h in chunk:
            out.append((h, run_history_forked(h, ref)))
        return out
    res = [x for ch in core.pmap(work, core.chunked(hists, core.NPROC * 4)) for x in ch]
    # digest-quotient graph to fixpoint (BFS over states; a state is represented by a history reaching it)
    dig_of = {h: r['digest'] for h, r in res}
    states = {}
    for h in sorted(dig_of, key=lambda x: (len(x), x)):
        states.setdefault(dig_of[h], h)
    frontier = [h for h in states.values() if len(h) >= depth]
    transitions = set()
    for h, r in res:
        if h:
            transitions.add((dig_of.get(h[:-1]), h[-1], r['digest']))
    extra = 0
    cap = 360 if tier == 'quick' else 20000
    capped = False
    while frontier and not capped:
        nxt = []
        for h in frontier:
            if extra >= cap:
                # a tree whose global state keeps growing (e.g. a cache keyed by input) has no small quotient graph:
                # stop, say so in the evidence; the histories explored so far are still judged one by one
                capped = True
                break
            for n in names:
                r = run_history_forked(h + (n,), ref)
                extra += 1
                res.append((h + (n,), r))
                transitions.add((dig_of[h], n, r['digest']))
                if r['digest'] not in states:
                    states[r['digest']] = h + (n,)
                    dig_of[h + (n,)] = r['digest']
                    nxt.append(h + (n,))
        frontier = nxt
    viols = []
    for h, r in res:
        if r.get('error') or r.get('diff'):
            last = h[-1] if h else '(none)'
            culprit = _culprit(h, res)
            viols.append({'kind': 'history-changes-results', 'sig': 'after:' + culprit, 'history': list(h),
                          'text': ' ; '.join(h), 'detail': r.get('error') or r.get('diff'), 'size': len(h)})
    return {'histories': len(hists), 'depth': depth if tier == 'quick' else '3 (all operations) + 4 (11 state-touching operations)', 'operations': names, 'states': len(states),
            'transitions': len(transitions), 'fixpoint_extra_runs': extra, 'fixpoint_capped': capped,
            'state_examples': {d: list(h) for d, h in list(states.items())[:6]}}, viols


# ============================================================== E8 lazily consumed streams

def lazy_part(tier):
    """every pair (thorough: every triple) of lazy entry points and complete calls, every interleaving of their
    next() steps; each must yield what it yields alone"""
    from vlib import lazytasks
    menu = lazytasks.tasks()
    k = len(menu)
    combos = list(itertools.combinations_with_replacement(range(k), 2))
    light = [0, 2, 3, 5, 7]
    if tier == 'quick':
        combos += list(itertools.combinations_with_replacement(light, 3))
    else:
        combos += list(itertools.combinations_with_replacement(range(k), 3))

    def work(chunk):
        from vlib import gensched, lazytasks as lt
        m = lt.tasks()
        refs = [gensched.alone(f, n) for _, f, n in m]
        out = []
        for combo in chunk:
            st = gensched.explore_checked([m[i][1] for i in combo], [m[i][2] for i in combo], [refs[i] for i in combo])
            out.append((combo, st))
        return out
    res = [x for ch in core.pmap(work, core.chunked(combos, core.NPROC * 4)) for x in ch]
    viols = []
    info = {'tasks': [n for n, _, _ in menu], 'combinations': len(combos), 'schedules': 0, 'steps': 0,
            'distinct_outcomes_max': 0}
    for combo, st in res:
        info['schedules'] += st['schedules']
        info['steps'] += st['steps']
        info['distinct_outcomes_max'] = max(info['distinct_outcomes_max'], st['distinct_outcomes'])
        for sched, ti, got, exp in st['violations'][:3]:
            names = [menu[i][0] for i in combo]
            viols.append({'kind': 'lazy-streams-interfere', 'sig': 'victim:' + names[ti].split('(')[0],
                          'combo': list(combo), 'schedule': list(sched), 'text': ' | '.join(names),
                          'detail': f'task {ti} ({names[ti]}) yielded {got!r:.160} instead of {exp!r:.160} under schedule {list(sched)}',
                          'size': len(sched) + 100 * len(combo)})
    return info, viols


def _culprit(h, res):
    """shortest suffix-free explanation: the first operation of the history after which a probe already fails"""
    bad = {tuple(x) for x, r in res if r.get('error') or r.get('diff')}
    for k in range(1, len(h) + 1):
        if tuple(h[:k]) in bad:
            return h[k - 1]
    return h[-1] if h else '(none)'


# ============================================================== E5 schedules

CUR = [None]


class _Lock(sched.SchedLock):
    def __init__(self):
        self.owner = None

    @property
    def sched(self):
        return CUR[0] or _NoSched()


class _NoSched:
    def current(self):
        return None


class _Exec(sched.Execution):
    def run(self):
        CUR[0] = self
        try:
            return super().run()
        finally:
            CUR[0] = None


def init_race(nthreads, bound, granularity, ref_tokens, max_exec=None, roots=None, split=False):
    from sqlparse import lexer
    fn = lexer.__file__
    init_names = None        # every function of lexer.py except the scanning loop and the keyword lookup

    atomic = ('get_tokens', 'is_keyword', 'tokenize')

    def is_point(code):
        return code.co_filename == fn and code.co_name not in atomic

    def frame_filter(frame):
        # nothing that runs on behalf of the scan loop is a scheduling point either (a helper that a change
        # factors out of get_tokens would otherwise multiply the points by rules x positions)
        f = frame.f_back
        while f is not None:
            if f.f_code.co_filename == fn and f.f_code.co_name in atomic:
                return False
            f = f.f_back
        return True
    is_point.frame_filter = frame_filter
    outcomes = collections.Counter()
    viols = []
    blocked_seen = [0]
    real_lock = lexer.Lexer._lock
    lexer.Lexer._lock = _Lock()
    sched_Execution = sched.Execution
    sched.Execution = _Exec
    try:
        def make():
            lexer.Lexer._default_instance = None
            lexer.Lexer._lock.owner = None

            def body():
                inst = lexer.Lexer.get_default_instance()
                toks = [(oracles.tname(tt), v) for tt, v in inst.get_tokens('select foo from bar map limit')]
                return id(inst), toks, (len(inst._SQL_REGEX), len(inst._keywords))
            return [body for _ in range(nthreads)]

        def on_exec(ex):
            if any(lbl == 'blocked' for _, _, _, lbl in ex.points):
                blocked_seen[0] += 1
            obs = []
            for i in range(nthreads):
                if ex.errors[i] is not None:
                    obs.append(('error', type(ex.errors[i]).__name__))
                else:
                    rid, toks, sizes = ex.results[i]
                    obs.append(('ok' if toks == ref_tokens else 'wrong-tokens', sizes))
            ids = {ex.results[i][0] for i in range(nthreads) if ex.results[i]}
            key = (tuple(obs), len(ids))
            outcomes[key] += 1
            if len(ids) != 1 or any(o[0] != 'ok' for o in obs):
                sched_desc = [(p[0], p[2], p[3]) for p in ex.points if p[2] != 0][:6]
                what = 'different-instances' if len(ids) > 1 else ','.join(sorted({o[0] for o in obs if o[0] != 'ok'}))
                viols.append({'kind': 'init-race', 'sig': what, 'schedule': [p[2] for p in ex.points],
                              'switches': sched_desc, 'threads': nthreads, 'granularity': granularity,
                              'text': f'{nthreads} threads, {granularity} points, non-default choices {sched_desc}',
                              'detail': f'observations {obs}, distinct instances {len(ids)}',
                              'size': sum(1 for p in ex.points if p[2] != 0)})
        if granularity == 'opcode':
            # CPython 3.12 instruments a code object for per-opcode events when f_trace_opcodes is first set on one of
            # its frames, and that first frame does not get them: one throw-away execution instruments every code object
            sched.explore(make, is_point, 0, granularity, None, max_executions=1)
        if roots is not None:
            st = sched.explore(make, is_point, bound, granularity, on_exec, max_executions=max_exec, roots=roots)
        elif split:
            # run the root here, hand its children (first deviation each) to forked workers
            st = sched.explore(make, is_point, bound, granularity, on_exec, children_only=True)
            kids = st.pop('children')
            st['children'] = []

            def work(chunk):
                s2, v2 = init_race(nthreads, bound, granularity, ref_tokens, roots=chunk)
                return s2, v2
            parts = core.pmap(work, core.chunked(kids, core.NPROC * 3)) if kids else []
            for s2, v2 in parts:
                st['executions'] += s2['executions']
                st['max_points'] = max(st['max_points'], s2['max_points'])
                st['switch_points_total'] += s2['switch_points_total']
                st['capped'] = st['capped'] or s2['capped']
                for k, n in s2['outcomes_raw'].items():
                    outcomes[k] += n
                blocked_seen[0] += s2['executions_where_a_thread_blocked_on_the_lock']
                viols.extend(v2)
        else:
            st = sched.explore(make, is_point, bound, granularity, on_exec, max_executions=max_exec)
    finally:
        sched.Execution = sched_Execution
        lexer.Lexer._lock = real_lock
        lexer.Lexer._default_instance = None
    st['outcomes'] = {str(k): v for k, v in outcomes.items()}
    st['outcomes_raw'] = dict(outcomes)
    st.pop('children', None)
    st['executions_where_a_thread_blocked_on_the_lock'] = blocked_seen[0]
    return st, viols


BODIES = collections.OrderedDict([
    ('parse', lambda sp: [str(s) for s in sp.parse('select a, b from t where x = 1; select 2')]),
    ('split', lambda sp: sp.split('select 1; create table t (a int); select 3')),
    ('format-reindent', lambda sp: sp.format('select a, b from t where x = 1 and y = 2; select 2', reindent=True, keyword_case='upper')),
    ('format-aligned', lambda sp: sp.format('select a /* c */, b from t join u on x = y', reindent_aligned=True, strip_comments=True)),
    ('format-python', lambda sp: sp.format('select 1; select 2', output_format='python')),
    ('format-spaces', lambda sp: sp.format('select a+b, c=d from t', use_space_around_operators=True, strip_whitespace=True)),
    ('raises', lambda sp: _raises(sp)),
])


def _raises(sp):
    try:
        sp.format('select 1', indent_width='x')
    except sp.exceptions.SQLParseError as e:
        return 'SQLParseError'


def concurrent_calls(pairs, bound, granularity, max_exec=None):
    import sqlparse
    from sqlparse import lexer
    lexer.Lexer.get_default_instance()
    root = os.path.dirname(sqlparse.__file__)
    coarse = ('run', 'process', '_process', 'group', 'tokenize', 'get_tokens', 'parse', 'parsestream', 'format',
              'split', 'validate_options', 'build_filter_stack', '__init__', '_reset', 'nl', '_split_kwds',
              '_split_statements', 'group_tokens', '_group_matching', '_group')

    def is_point(code):
        if not code.co_filename.startswith(root):
            return False
        return granularity != 'call' or code.co_name in coarse or code.co_name.startswith(('group_', '_process_', '_stripws'))
    stats_all = {'executions': 0, 'max_points': 0, 'pairs': {}}
    viols = []
    for a, b in pairs:
        exp = (BODIES[a](sqlparse), BODIES[b](sqlparse))
        outcomes = collections.Counter()

        def make():
            return [lambda: BODIES[a](sqlparse), lambda: BODIES[b](sqlparse)]

        def on_exec(ex):
            got = (ex.results[0], ex.results[1])
            errs = [type(e).__name__ if e is not None else None for e in ex.errors]
            ok = got == exp and not any(errs)
            outcomes['same-as-alone' if ok else 'differs'] += 1
            if not ok:
                sw = [(p[0], p[2], p[3]) for p in ex.points if p[2] != 0][:6]
                viols.append({'kind': 'thread-interference', 'sig': f'{a}||{b}', 'schedule': [p[2] for p in ex.points],
                              'text': f'{a} || {b}, switches {sw}', 'pair': [a, b], 'granularity': granularity,
                              'detail': f'errors {errs}; got {json.dumps(got)[:200]} expected {json.dumps(exp)[:200]}',
                              'size': len(sw)})
        st = sched.explore(make, is_point, bound, 'line' if granularity == 'line' else 'callsite', on_exec,
                           max_executions=max_exec)
        stats_all['executions'] += st['executions']
        stats_all['max_points'] = max(stats_all['max_points'], st['max_points'])
        stats_all['pairs'][f'{a}||{b}'] = {'executions': st['executions'], 'points': st['max_points'],
                                            'outcomes': dict(outcomes), 'capped': st['capped']}
    return stats_all, viols


def _cc_parallel(pairs, bound, max_exec=None):
    parts = core.pmap(lambda p: concurrent_calls([p], bound, 'call', max_exec=max_exec), pairs)
    cc = {'executions': 0, 'max_points': 0, 'pairs': {}}
    viols = []
    for c, v in parts:
        cc['executions'] += c['executions']
        cc['max_points'] = max(cc['max_points'], c['max_points'])
        cc['pairs'].update(c['pairs'])
        viols += v
    return cc, viols


def frame_condition(names):
    """run each body alone and evaluate the global digest at every function entry inside sqlparse"""
    import sqlparse
    from sqlparse import lexer
    lexer.Lexer.get_default_instance()
    root = os.path.dirname(sqlparse.__file__)
    out = {}
    for n in names:
        base = digest.global_digest()
        changes = []
        count = [0]

        def tracer(frame, event, arg):
            if event == 'call' and frame.f_code.co_filename.startswith(root):
                count[0] += 1
                sys.settrace(None)
                d = digest.global_digest()
                sys.settrace(tracer)
                if d != base and (not changes or changes[-1][1] != d):
                    changes.append((f'{frame.f_code.co_name}:{frame.f_lineno}', d))
            return None
        sys.settrace(tracer)
        try:
            BODIES[n](sqlparse)
        finally:
            sys.settrace(None)
        end = digest.global_digest()
        out[n] = {'digest_evaluations': count[0], 'steps_changing_shared_state': len(changes),
                  'first_change': changes[0][0] if changes else None, 'end_equals_start': end == base}
    return out


def run(tier, seed):
    from sqlparse import lexer
    ref = reference()
    viols = []
    vc = collections.Counter()
    # ---- histories (first: the parent must not have created the lexer yet, so that the children also explore
    # the state before the process's first call)
    assert lexer.Lexer._default_instance is None
    import time as _t
    t0 = _t.time()
    timing = {}
    hinfo, hv = histories_part(tier, seed, ref)
    timing['histories'] = round(_t.time() - t0, 1)
    viols += hv
    ref_tokens = [(oracles.tname(tt), v) for tt, v in lexer.tokenize('select foo from bar map limit')]
    # ---- init race
    race = {}
    plan = [(2, 3, 'line'), (3, 1, 'line'), (2, 1, 'opcode')] if tier == 'quick' else \
           [(2, 3, 'line'), (3, 2, 'line'), (2, 2, 'opcode'), (3, 1, 'opcode')]
    for nt, bd, gr in plan:
        st, v = init_race(nt, bd, gr, ref_tokens, split=True)
        st.pop('outcomes_raw', None)
        race[f'{nt} threads, {gr} points, preemption bound {bd}'] = st
        viols += v
    timing['init_race'] = round(_t.time() - t0 - timing['histories'], 1)
    # one schedule replayed twice must give identical observations
    st1, v1 = init_race(2, 0, 'line', ref_tokens)
    st2, v2 = init_race(2, 0, 'line', ref_tokens)
    model_errors = []
    if st1['outcomes'] != st2['outcomes']:
        model_errors.append(f'replaying the default schedule twice gave different observations: {st1["outcomes"]} / {st2["outcomes"]}')
    # ---- concurrent calls
    names = list(BODIES)
    if tier == 'quick':
        pairs = [('parse', 'format-reindent'), ('format-aligned', 'format-python'), ('format-spaces', 'format-spaces'),
                 ('split', 'raises')]
        cc, v = _cc_parallel(pairs, 1)
    else:
        pairs = [(a, b) for i, a in enumerate(names) for b in names[i:]]
        cc, v = _cc_parallel(pairs, 1)
        cc2, v2b = _cc_parallel([('format-spaces', 'format-spaces'), ('parse', 'format-reindent'),
                                 ('format-python', 'format-python'), ('split', 'format-aligned')], 2, max_exec=25000)
        cc['bound2'] = cc2
        v += v2b
    viols += v
    timing['concurrent_calls'] = round(_t.time() - t0 - sum(timing.values()), 1)
    linfo, lv = lazy_part(tier)
    viols += lv
    timing['lazy_streams'] = round(_t.time() - t0 - sum(timing.values()), 1)
    fc_names = names if tier == 'thorough' else names[:4]
    fc = {}
    for part in core.pmap(lambda n: frame_condition([n]), fc_names):
        fc.update(part)
    timing['frame_condition'] = round(_t.time() - t0 - sum(timing.values()), 1)
    for x in viols:
        vc[(x['kind'], x['sig'])] += 1
    total_exec = sum(s['executions'] for s in race.values()) + cc['executions'] + linfo['schedules']
    cov = {
        'states': hinfo['states'] + total_exec, 'transitions': hinfo['transitions'] + sum(s['switch_points_total'] for s in race.values()),
        'traces_validated_against_impl': hinfo['histories'] + hinfo['fixpoint_extra_runs'] + total_exec,
        'samples': [{'history': ['parse-raises', 'reconfigure-and-reset', 'stream-suspended']},
                    {'schedule': 'thread 0 preempted after get_default_instance:53, thread 1 runs until it blocks on the lock'}],
        'histories': hinfo, 'init_race': race, 'concurrent_calls': cc, 'lazy_streams': linfo, 'frame_condition': fc,
        'schedules_explored': total_exec, 'timing_s': timing,
        'exhaustive': not any(s['capped'] for s in race.values()) and not hinfo['fixpoint_capped'],
        'explanation': 'E6: every history of <= d operations from a 21-operation alphabet (each in a forked child of a warm '
                       'parent), plus BFS over the digest-quotient graph of global states to fixpoint; in every state the '
                       'probe suite must return exactly what a fresh interpreter returns. E5: all interleavings of 2-3 real '
                       'threads through lexer creation/initialisation under a cooperative scheduler (scheduling points at '
                       'every line / every opcode of lexer.py outside the scan loop, the lock replaced by a scheduler-aware '
                       'lock) up to the preemption bound; every thread must get the same, completely initialised lexer. '
                       'Concurrent parse/split/format pairs at function-entry granularity, preemption bound 1-2. '
                       'E8: every interleaving of the next() steps of 2-3 lazily consumed streams (tokenize, get_tokens, '
                       'parsestream, splitter, filter stack) and complete calls; each must yield what it yields alone. '
                       'states = reachable global-state digests + executions; all model runs execute the implementation.',
    }
    return core.Result('C20', 'model_checking', cov, violations=viols, viol_count=vc, model_errors=model_errors,
                       assumptions=['CPython with the GIL: interleavings below bytecode granularity are not modelled',
                                    'the digest covers what vlib/digest.py lists; the re module\'s own cache is outside',
                                    'scheduling points inside the scan loop (get_tokens/is_keyword) are not explored: a '
                                    'thread tokenises atomically at whatever moment it holds the instance'])


def replay(case):
    from sqlparse import lexer
    if case['kind'] == 'history-changes-results':
        r = run_history_forked(tuple(case['history']), reference())
        bad = r.get('error') or r.get('diff')
        return {'history': case['history'], 'violation': bool(bad), 'observed': bad}
    if case['kind'] == 'init-race':
        ref_tokens = [(oracles.tname(tt), v) for tt, v in lexer.tokenize('select foo from bar map limit')]
        bound = sum(1 for c in case['schedule'] if c)
        st, v = init_race(case['threads'], min(bound, 2), case['granularity'], ref_tokens)
        return {'violation': bool(v), 'observed': v[0]['detail'] if v else None}
    if case['kind'] == 'lazy-streams-interfere':
        from vlib import gensched, lazytasks
        m = lazytasks.tasks()
        st = gensched.explore([m[i][1] for i in case['combo']], [m[i][2] for i in case['combo']])
        return {'violation': bool(st['violations']), 'observed': repr(st['violations'][:1])[:300]}
    cc, v = concurrent_calls([tuple(case['pair'])], 1, 'call')
    return {'violation': bool(v), 'observed': v[0]['detail'] if v else None}
