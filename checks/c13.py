"""C13 clause nodes cover exactly the clause as written - E2 full products with ground truth."""
import itertools

from vlib import core, oracles

WS = [' ', '\n', '  ']

CONDS = ['c = 1', 'c = 1 and d = 2', 'c between 1 and 2', 'c in (1, 2)', 'c is null', 'not c',
         "c like 'x'", 'f(c) > 1', '(c = 1 or d = 2)', 'c = (select 1)',
         'exists (select 1 from v where z = 1)', "c = 'where'", 'c = 1 or d in (select e from v where z = 2)']
FOLLOW = [('none', ''), ('semicolon', ';'), ('group by', 'group by a'), ('order by', 'order by a'),
          ('limit', 'limit 1'), ('union', 'union select 1'), ('union all', 'union all select 1'),
          ('except', 'except select 1'), ('having', 'having x > 1'), ('returning', 'returning id'),
          ('into', "into outfile 'x'"), ('group+having+order', 'group by a having x > 1 order by a'),
          ('order+limit', 'order by a limit 1'),
          ('union+where', 'union select b from u where e = 3'), ('except+where+order', 'except select b from u where e in (1, 2) order by 1'),
          ('union all+where', 'union all select 2 where g'), ('GROUP  BY', 'GROUP  BY a'), ('Order\nBy', 'Order\nBy a')]
NEST = [('top', '{q}'), ('from-subquery', 'select * from ({q}) s'), ('in-subquery', 'select 1 from u where id in ({q})'),
        ('cte', 'with w as ({q}) select 1'), ('from-subquery-as-then-order', 'select * from ({q}) as s order by 1')]
HEADS = [('select', 'select a from t'), ('update', 'update t set a = 1'), ('delete', 'delete from t'),
         ('select-join', 'select a from t join u on t.i = u.i')]


def where_cases():
    for (hn, head), cond, (fn, follow), w, (nn, nest) in itertools.product(HEADS, CONDS, FOLLOW, WS, NEST):
        if hn != 'select' and fn not in ('none', 'semicolon', 'returning'):
            continue
        if hn in ('select', 'select-join') and fn == 'returning':
            continue
        if fn == 'semicolon' and nn != 'top':
            continue
        if nn != 'top' and hn in ('update', 'delete'):
            continue
        wh = 'where' + w + cond
        exp2 = None
        if follow == ';':
            q = head + w + wh + follow
            exp = wh + follow
        elif follow:
            q = head + w + wh + w + follow
            exp = wh + w
            if 'where' in follow:
                second = follow[follow.index('where'):]
                cut = second.find(' order by')
                exp2 = second if cut < 0 else second[:cut + 1]
        else:
            q = head + w + wh
            exp = wh
        text = nest.format(q=q)
        yield {'sub': 'where', 'text': text, 'expect': exp, 'expect2': exp2, 'cube': f'follow={fn}|nest={nn}|head={hn}'}


ITEMS = ['a', 't.a', 'a as x', 'a x', '1', "'s'", 'f(a)', 'f(a, b) as y', 'a + 1', 'case when a then 1 end',
         '*', 't.*', 'a::int', 'a[1]', 'count(*) over (partition by b)', '?', 'null', '-1', '(a + 1)', '"q r"',
         'a || b', 'a = 1', 'coalesce(a, 1) z', 'max(a)', '1.5', ':p', '%s', "$$d$$"]
ITEMS_EXT = ["date '2001-01-01'", '(select 1)', "interval '1' day", '@var', '#tmp']
# item forms that the comma-joining pass does not accept as list items (known finding KF-C13-1)
BREAKERS = {"date '2001-01-01'": 'typed-literal', "interval '1' day": 'typed-literal', '(select 1)': 'parenthesis',
            '(a + 1)': 'parenthesis', '$$d$$': 'dollar-literal'}
FROM_ITEMS = ['t', 't x', 't as x', 's.t', '(select 1) q', 's.t as x', '"q r"', '`b`', '(select 1) as q', 'f(1)',
              'f(1) x']
SEPS = [', ', ',', ' , ', ',\n', '\n,']


def list_cases(tier):
    items = ITEMS + ITEMS_EXT
    nested = ['a', 't.a', 'a x', 'a as x', 'b y', '1', 'f(a)', 'f(a) z', 'a + 1 w', 'case when a then 1 end c', '*']
    pos = [('select', 'select {L} from t', items), ('from', 'select 1 from {L} where 1 = 1', FROM_ITEMS),
           ('select-in-subquery-as', 'select s.x from (select {L} from t) as s', nested),
           ('select-in-cte', 'with w as (select {L} from t) select 1 from w', nested),
           ('select-in-in-subquery', 'select 1 from t where x in (select {L} from u)', nested),
           ('from-in-subquery-as', 'select 1 from (select 1 from {L}) as s', FROM_ITEMS[:7]),
           ('group-by', 'select 1 from t group by {L}', ['a', 't.a', '1', 'f(a)', 'a + 1']),
           ('order-by', 'select 1 from t order by {L}', ['a', 't.a desc', '1', 'a asc', 'b', 'a desc nulls last'])]
    for pn, tmpl, its in pos:
        for n in (2, 3):
            if n == 3 and tier == 'quick' and pn == 'select':
                pool = its[:14]
            else:
                pool = its
            for combo in itertools.product(pool, repeat=n):
                if len(set(combo)) < n and n == 3:
                    continue
                for sep in (SEPS if n == 2 else SEPS[:2]):
                    text = tmpl.format(L=sep.join(combo))
                    brk = sorted({BREAKERS[c] for c in combo if c in BREAKERS})
                    yield {'sub': 'list', 'text': text, 'expect': list(combo),
                           'cube': f'pos={pn}|breakers={",".join(brk) or "-"}'}


ARGS = ['a', '1', "'s'", 't.a', 'g(b)', 'a + 1', '?', 'null', 'a = 1', 'case when a then 1 end', '-1', '(select 1)',
        'a::int', "date '2001-01-01'", 'b.*', ':p', 'a as x']


def call_cases(tier):
    for n in (0, 1, 2, 3):
        pool = ARGS if n < 3 else ARGS[:8]
        for combo in itertools.product(pool, repeat=n):
            for sep, callsp in ((', ', ''), (',', ''), (', ', ' '), (', ', '\n'), (', ', '  ')):
                for ctx in ('select {F} from t', 'select 1 from t where {F} > 1', 'select x, {F} as y from t',
                            'select {F} over (partition by b) from t', 'select {F} over w as y from t',
                            'select {F} over (order by a, b) z, c from t'):
                    call = 'f' + callsp + '(' + sep.join(combo) + ')'
                    kinds = sorted({_argkind(a) for a in combo})
                    node = call
                    if ' over ' in ctx:
                        node = call + ctx[ctx.index(' over '):].split(' as ')[0].split(' z,')[0].split(' from')[0]
                    yield {'sub': 'call', 'text': ctx.format(F=call), 'call': node, 'expect': list(combo),
                           'cube': f'n={n}|kinds={",".join(kinds) or "-"}|over={"yes" if " over " in ctx else "no"}|sp={len(callsp)}'}
                if n < 2:
                    break
    yield {'sub': 'call', 'text': 'select count(*) from t', 'call': 'count(*)', 'expect': ['*'], 'cube': 'n=1|kinds=star'}
    yield {'sub': 'call', 'text': 'select count(distinct a) from t', 'call': 'count(distinct a)', 'expect': ['a'],
           'cube': 'n=1|kinds=distinct'}


def _argkind(a):
    if a in ('a', 't.a', 'a::int', 'a as x'):
        return 'identifier'
    if a in ('1', "'s'", '-1'):
        return 'literal'
    if a == 'g(b)':
        return 'function'
    if a == "date '2001-01-01'":
        return 'typed-literal'
    if a in ('?', ':p'):
        return 'placeholder'
    return {'a + 1': 'operation', 'null': 'null', 'a = 1': 'comparison', 'case when a then 1 end': 'case',
            '(select 1)': 'subquery', 'b.*': 'wildcard'}.get(a, 'other')


OPERANDS = ['a', '1', "'s'", 'f(a)', 'a + 1']
WHENS = ['a = 1', 'a', 'a > 1 and b < 2', 'a in (1, 2)', 'a is null']


def case_cases():
    for operand in [None, 'x', 't.x', 'f(x)']:
        for n in (1, 2):
            for conds in itertools.product(WHENS if operand is None else ['1', "'s'", 'a'], repeat=n):
                for vals in itertools.product(OPERANDS[:3] if n == 2 else OPERANDS, repeat=n):
                    for els in (None, '0', "'e'", 'f(z)'):
                        for w in (' ', '\n'):
                            parts = ['case']
                            exp = []
                            if operand:
                                parts.append(operand)
                                exp.append([operand, ''])
                            for c, v in zip(conds, vals):
                                parts += ['when', c, 'then', v]
                                exp.append([c, v])
                            if els:
                                parts += ['else', els]
                                exp.append([None, els])
                            parts.append('end')
                            ctext = w.join(parts)
                            yield {'sub': 'case', 'text': f'select {ctext} as r from t', 'case': ctext, 'expect': exp,
                                   'cube': f'operand={"yes" if operand else "no"}|whens={n}|else={"yes" if els else "no"}'}


CMP_L = ['a', 't.a', '1', "'s'", 'f(a)', '(a + 1)', 'a + 1', 'null', '?', ':p', 'a::int', 'a[1]', "date '2020-01-01'",
         '"q r"', '-1', 'a || b']
CMP_OPS = ['=', '<', '>=', '<>', '!=', 'like', 'not like', 'ilike', '==', '~', '<=']


def cmp_cases():
    for l, op, r in itertools.product(CMP_L, CMP_OPS, CMP_L):
        for w in (' ', '') if op[0] not in 'lni' else (' ',):
            if w == '' and (l[-1] in '<>=!~' or r[0] in '<>=!~-'):
                continue
            text = f'select * from t where {l}{w}{op}{w}{r}'
            yield {'sub': 'comparison', 'text': text, 'expect': [l, r], 'op': op,
                   'cube': f'l={_opkind(l)}|r={_opkind(r)}'}


def _opkind(x):
    return {'a': 'name', 't.a': 'name', '1': 'number', "'s'": 'string', 'f(a)': 'function', '(a + 1)': 'parenthesis',
            'a + 1': 'operation', 'null': 'null', '?': 'placeholder', ':p': 'placeholder', 'a::int': 'typecast',
            'a[1]': 'array', "date '2020-01-01'": 'typed-literal', '"q r"': 'quoted', '-1': 'number',
            'a || b': 'operation'}[x]


def typed_cases():
    for kw in ('date', 'timestamp', 'interval', 'DATE', 'Timestamp', 'INTERVAL'):
        for lit in ("'2001-01-01'", "'1'", "'2 hours'", "''"):
            for unit in (None, 'day', 'hour', 'minute', 'month', 'second', 'year', 'DAY'):
                if unit and kw.lower() != 'interval':
                    continue
                for w in (' ', '\n', '  '):
                    tl = kw + w + lit + (w + unit if unit else '')
                    for ctx in ('select {T}', 'select a, {T} from t', 'select * from t where d > {T}',
                                'select {T} as x', 'select f({T})'):
                        yield {'sub': 'typed-literal', 'text': ctx.format(T=tl), 'expect': tl,
                               'cube': f'kw={kw.lower()}|unit={"yes" if unit else "no"}|ctx={ctx.split()[1][:4]}'}


def all_cases(tier):
    yield from where_cases()
    yield from list_cases(tier)
    yield from call_cases(tier)
    yield from case_cases()
    yield from cmp_cases()
    yield from typed_cases()


def _nodes(stmt, cls):
    return [n for n, _ in oracles.walk_nodes(stmt, (stmt,), []) if isinstance(n, cls)]


def check(sqlparse, case):
    from sqlparse import sql
    text = case['text']
    try:
        stmts = sqlparse.parse(text)
    except Exception as e:  # noqa
        return ('parse-exception', oracles.crash_site(e), repr(e)[:120])
    if len(stmts) != 1:
        return ('statement-count', str(len(stmts)), text)
    st = stmts[0]
    sub = case['sub']
    try:
        if sub == 'where':
            ws = _nodes(st, sql.Where)
            texts = [str(w) for w in ws]
            if case['expect'] not in texts:
                return ('where-extent', 'extent', f'Where nodes {texts!r}, expected {case["expect"]!r}')
            if case.get('expect2') and case['expect2'] not in texts:
                return ('where-extent', 'second-where', f'Where nodes {texts!r}, expected also {case["expect2"]!r}')
            from sqlparse import lexer
            nkw = sum(1 for tt, v in lexer.tokenize(text) if oracles.tname(tt) == 'Keyword' and v.upper() == 'WHERE')
            if len(ws) != nkw:
                return ('where-count', 'count', f'{len(ws)} Where nodes in {text!r}')
        elif sub == 'list':
            exp = case['expect']
            for il in _nodes(st, sql.IdentifierList):
                got = [str(i) for i in il.get_identifiers()]
                if got == exp:
                    return None
            got_all = [[str(i) for i in il.get_identifiers()] for il in _nodes(st, sql.IdentifierList)]
            return ('list-items', 'items', f'IdentifierLists {got_all!r}, expected {exp!r}')
        elif sub == 'call':
            fs = [f for f in _nodes(st, sql.Function) if str(f) == case['call']]
            if not fs:
                return ('no-function-node', 'missing', f'no Function with text {case["call"]!r}')
            got = [str(p) for p in fs[0].get_parameters()]
            if got != case['expect']:
                return ('call-parameters', 'params', f'get_parameters {got!r}, expected {case["expect"]!r}')
        elif sub == 'case':
            cs = [c for c in _nodes(st, sql.Case) if str(c) == case['case']]
            if not cs:
                return ('no-case-node', 'missing', f'no Case with text {case["case"]!r}')
            got = []
            for cond, val in cs[0].get_cases():
                c = None if cond is None else _strip_kw(''.join(str(t) for t in cond), ('when',))
                v = _strip_kw(''.join(str(t) for t in val), ('then', 'else'))
                got.append([c, v])
            # whitespace tokens are not written parts: with skip_ws=False a whitespace-only entry
            # (the blank between CASE and the first WHEN) is ignored, with skip_ws=True none may occur
            got = [g for g in got if (g[0] or '') != '' or g[1] != '']
            if got != case['expect']:
                return ('case-parts', 'parts', f'get_cases {got!r}, expected {case["expect"]!r}')
            got2 = []
            for cond, val in cs[0].get_cases(skip_ws=True):
                c = None if cond is None else _strip_kw(' '.join(str(t) for t in cond), ('when',))
                v = _strip_kw(' '.join(str(t) for t in val), ('then', 'else'))
                got2.append([c, v])
            exp2 = [[None if c is None else ' '.join(c.split()), ' '.join(v.split())] for c, v in case['expect']]
            got2n = [[None if c is None else ' '.join(c.split()), ' '.join(v.split())] for c, v in got2]
            if got2n != exp2:
                return ('case-parts', 'skip_ws', f'get_cases(skip_ws=True) {got2n!r}, expected {exp2!r}')
        elif sub == 'comparison':
            l, r = case['expect']
            for c in _nodes(st, sql.Comparison):
                if str(c.left) == l and str(c.right) == r:
                    return None
            got = [(str(c.left), str(c.right)) for c in _nodes(st, sql.Comparison)]
            return ('comparison-operands', 'operands', f'Comparisons {got!r}, expected {(l, r)!r}')
        elif sub == 'typed-literal':
            got = [str(t) for t in _nodes(st, sql.TypedLiteral)]
            if got != [case['expect']]:
                return ('typed-literal', 'node', f'TypedLiteral nodes {got!r}, expected [{case["expect"]!r}]')
    except Exception as e:  # noqa
        return ('accessor-exception', oracles.crash_site(e), repr(e)[:120])
    return None


def _strip_kw(s, kws):
    s = s.strip()
    low = s.lower()
    for k in kws:
        if low.startswith(k) and (len(s) == len(k) or s[len(k)].isspace()):
            return s[len(k):].strip()
    return s


def run(tier, seed):
    cases = core.rotate(list(all_cases(tier)), seed)

    def work(chunk):
        import sqlparse
        acc = core.Acc(bits=24)
        for case in chunk:
            bad = check(sqlparse, case)
            acc.case(case['text'], True, outcome=case['sub'], sample={'text': case['text'], 'expect': case['expect']})
            if bad:
                v = dict(case)
                v.update({'kind': bad[0], 'sig': f'{case["sub"]}|{bad[1]}|{case["cube"]}', 'detail': bad[2],
                          'size': len(case['text'])})
                acc.violation(v)
        return acc.dump()
    merged = core.merge(core.pmap(work, core.chunked(cases, core.NPROC * 8)))
    cov = {
        'evaluations': merged['n'], 'distinct_nontrivial': merged['distinct'],
        'rule': 'six FULL PRODUCTS with ground truth from construction: WHERE (4 heads x 13 conditions x 15 following '
                'clauses incl. every closer of the property x 3 whitespace x 5 nesting contexts); lists (every pair and '
                'triple of item forms x separator spellings, in select / FROM / GROUP BY / ORDER BY position); calls '
                '(every argument list of <= 3 forms x 3 contexts); CASE (operand x 1-2 WHEN x conditions x values x '
                'ELSE x whitespace); comparisons (17 x 11 x 17 operand/operator triples, tight and spaced); typed '
                'literals (keyword x literal x unit x whitespace x 5 contexts). Every case is non-trivial; distinct by '
                'text (hashed bitmap, lower bound).',
        'samples': merged['samples'][:6], 'exhaustive': True, 'outcomes': dict(merged['outcomes']),
        'oracle': 'str(Where) == written clause (through trailing whitespace, up to but excluding the closer); '
                  '[str(i) for i in get_identifiers()] == written items; [str(p) for p in get_parameters()] == written '
                  'arguments; get_cases() parts == written WHEN/THEN/ELSE texts; str(left), str(right) == written '
                  'operands; exactly one TypedLiteral with the written text',
    }
    return core.Result('C13', 'exploration', cov, violations=merged['viol'], viol_count=merged['viol_count'],
                       assumptions=['item / operand / condition forms listed in checks/c13.py are the grammar\'s forms'])


def replay(case):
    import sqlparse
    bad = check(sqlparse, case)
    return {'text': case['text'], 'violation': bool(bad), 'observed': bad}
