"""C04 split() partitions the input and agrees with parse(); pieces are single statements - E1."""
from vlib import core, e1, oracles, spaces
from checks import _e1parse


def _setup():
    import sqlparse
    return sqlparse, {}


def _resplit_cached(sqlparse, cache):
    def f(piece):
        r = cache.get(piece)
        if r is None:
            r = sqlparse.split(piece)
            if len(cache) < 200000:
                cache[piece] = r
        return r
    return f


def _evaluate(text, frags, space, acc, state):
    sqlparse, cache = state
    try:
        pieces = sqlparse.split(text)
        stmts = sqlparse.parse(text)
        bad = oracles.check_c04(text, pieces, stmts, _resplit_cached(sqlparse, cache))
    except sqlparse.exceptions.SQLParseError:
        acc.case(text, False, outcome='SQLParseError')
        return
    except Exception as e:  # noqa
        acc.case(text, False, outcome='exception')
        acc.violation(e1.viol('split-exception', oracles.crash_site(e), repr(e)[:200], text, frags, space))
        return
    acc.case(text, len(pieces) >= 2, outcome=f'{min(len(pieces), 4)} piece(s)', sample=text)
    if bad:
        acc.violation(e1.viol(bad[0], str(bad[1]), bad[2], text, frags, space))


# what follows a statement end WITHOUT a separating blank: after ';' the next piece starts as at the start of a
# text, after a GO count ('go 2') it starts behind a word character, which the look-behinds of the dollar-quote,
# bracket-name and placeholder rules can see in the script but not in the piece alone
GLUE_HEADS = ['go 2', 'a go 2', ';', 'go\n']
GLUE_TAIL = [';', ' ', 'a', '$$', '(', ')', '[', ']', ':b']


def glued_cases(tier):
    import itertools
    n = 5 if tier == 'quick' else 6
    cases = [(h,) + t for h in GLUE_HEADS for k in range(1, n + 1)
             for t in itertools.product(GLUE_TAIL, repeat=k)]
    return (f'GLUE heads x tails<={n}', cases, '')


def run(tier, seed):
    sp = _e1parse.parse_spaces(tier, focus=() if tier == 'quick' else ('D4', 'D7'), light=True)
    sp.append((f'SPL<={5 if tier == "quick" else 6} blank', spaces.SPL, 5 if tier == 'quick' else 6, ' '))
    merged, sizes = e1.run(sp, _evaluate, seed, bits=27 if tier == 'thorough' else 23, setup=_setup,
                           extra_cases=[glued_cases(tier)])
    cov = {
        'evaluations': merged['n'], 'distinct_nontrivial': merged['distinct'],
        'rule': 'same string spaces as C02 with the statement-boundary driver D7 (; GO BEGIN CREATE '
                'DECLARE ... literals containing ;) deepened; every piece of every explored input is '
                're-fed to split(). Non-trivial = at least two pieces; distinct = distinct texts '
                '(hashed bitmap, lower bound).',
        'samples': merged['samples'][:8], 'exhaustive': True, 'spaces': sizes,
        'outcomes': dict(merged['outcomes']),
        'oracle': 'split(x) == [str(s).strip() for s in parse(x)]; pieces non-empty, found left to '
                  'right with only whitespace before/between/after; split(piece) == [piece]',
    }
    return core.Result('C04', 'exploration', cov, violations=merged['viol'], viol_count=merged['viol_count'],
                       assumptions=['whitespace = str.isspace() (what strip() removes)'])


def replay(case):
    import sqlparse
    text = case['text']
    try:
        bad = oracles.check_c04(text, sqlparse.split(text), sqlparse.parse(text), sqlparse.split)
    except sqlparse.exceptions.SQLParseError:
        bad = None
    except Exception as e:  # noqa
        bad = ('split-exception', oracles.crash_site(e), repr(e))
    return {'text': text, 'violation': bool(bad), 'observed': bad}
