"""C12 identifier accessors return the written name, qualifier and alias - E2 full product."""
import itertools

from vlib import core, oracles

# the second row: non-keywords that start with a word some dedicated lexical rule knows (ASC, DESC, END, AS, IN, FROM ...)
NAMES = ['col', 'Col_1', 'x', 'élan', 'tbl2',
         'description', 'ascii_code', 'endpoint', 'order_id', 'as_of', 'in_stock', 'from_date', 'joiner', 'casefold', 'likes']
NAMES_MORE = ['a1', 'ñ', 'my_long_name', 'T', 'c_1x']
QUOTE = [('', ''), ('"', '"'), ('`', '`')]
# spellings that only exist inside quotes ({q}{q} = the escaped quote character of the style in use)
QUOTED_ONLY = ['my col', 'x{q}{q}', '{q}{q}x', 'a{q}{q}b', 'se;l.ect']
QUALS = [None, ('sch', '', ''), ('my sch', '"', '"'), ('Sch', '`', '`'), ('s""', '"', '"')]
# alias: (text to append after the reference with {w} for whitespace, expected alias)
ALIASES = [('', None), ('{w}al', 'al'), ('{w}AS{w}al', 'al'), ('{w}as{w}"al"', 'al'), ('{w}`al`', 'al'),
           ('{w}AS{w}"a b"', 'a b'), ('{w}As{w}Al_2', 'Al_2'), ('{w}as{w}"al"""', 'al""'),
           # an alias spelled exactly like the name it renames ({n} = the written name with its quotes)
           ('{w}{n}', '{n}'), ('{w}AS{w}{n}', '{n}'),
           # a quoted alias glued to the keyword
           ('{w}as"al"', 'al'), ('{w}AS`al`', 'al')]
# ... and glued to the name as well (possible only behind a closing quote): no whitespace inside the Identifier
ALIASES_GLUED = [('as"al"', 'al'), ('AS`al`', 'al'), ('as{w}al', 'al')]
WS = [' ', '  ', '\n', '\t']
NEIGH = [('a', 'b'), ('f(1)', 'max(b) m'), ('1', "'s'"), ('k1{w}kk', 'b{w}bb')]
# context: template with {X}; {A}/{B} neighbours; {w} whitespace
CONTEXTS = [
    ('select-only', 'select{w}{X}{w}from{w}t'),
    ('select-first', 'select{w}{X},{w}{B}{w}from{w}t'),
    ('select-middle', 'select{w}{A},{w}{X},{w}{B}{w}from{w}t'),
    ('select-last', 'select{w}{A},{w}{X}{w}from{w}t'),
    ('select-last-tight', 'select{w}{A},{X}{w}from{w}t'),
    ('select-middle-tight', 'select{w}{A},{X},{B}{w}from{w}t'),
    ('from-list-tight', 'select{w}1{w}from{w}t1{w}x,{X}'),
    ('from', 'select{w}1{w}from{w}{X}'),
    ('from-list', 'select{w}1{w}from{w}t1,{w}{X}'),
    ('from-list-first', 'select{w}1{w}from{w}{X},{w}t2{w}where{w}1{w}={w}1'),
    ('join', 'select{w}1{w}from{w}t1{w}join{w}{X}{w}on{w}1{w}={w}1'),
    ('left-join', 'select{w}1{w}from{w}t1{w}left{w}outer{w}join{w}{X}{w}using{w}(id)'),
    ('update', 'update{w}{X}{w}set{w}a{w}={w}1'),
    ('insert', 'insert{w}into{w}{X}{w}values{w}(1)'),
    ('delete', 'delete{w}from{w}{X}{w}where{w}1{w}={w}1'),
    ('subquery', 'select{w}1{w}from{w}(select{w}{X}{w}from{w}t){w}s'),
    ('subquery-from', 'select{w}1{w}from{w}(select{w}1{w}from{w}{X}){w}s'),
    ('subquery-as', 'select{w}1{w}from{w}(select{w}{X}{w}from{w}t){w}as{w}s'),
    ('scalar-subquery-as', 'select{w}(select{w}{X}{w}from{w}t){w}as{w}q'),
    ('cte', 'with{w}w{w}as{w}(select{w}{X}{w}from{w}t){w}select{w}1'),
    ('cte-from', 'with{w}w{w}as{w}(select{w}1{w}from{w}{X}){w}select{w}1{w}from{w}w'),
    ('join-subquery-as', 'select{w}1{w}from{w}t1{w}join{w}(select{w}1{w}from{w}{X}){w}as{w}j{w}on{w}1{w}={w}1'),
    ('exists-subquery', 'select{w}1{w}from{w}t{w}where{w}exists{w}(select{w}{X}{w}from{w}u)'),
    ('order-by-subquery-desc', 'select{w}1{w}from{w}t{w}order{w}by{w}(select{w}{X}{w}from{w}u){w}desc'),
    ('item-subquery-desc', 'select{w}(select{w}{X}{w}from{w}u){w}desc'),
    ('order-by-call-asc', 'select{w}1{w}from{w}t{w}order{w}by{w}f((select{w}{X}{w}from{w}u)){w}asc'),
]


def cases(tier):
    names = NAMES + (NAMES_MORE if tier == 'thorough' else [])
    for name, (ql, qr) in itertools.product(names, QUOTE):
        yield name, ql, qr
    for name, (ql, qr) in itertools.product(QUOTED_ONLY, QUOTE[1:]):
        yield name.format(q=ql), ql, qr


def build(name, ql, qr, qual, alias, w, ctx, neigh):
    ref = ql + name + qr
    exp_parent = None
    if qual is not None:
        qn, a, b = qual
        ref = a + qn + b + '.' + ref
        exp_parent = qn
    atext, exp_alias = alias
    if '{n}' in atext:
        atext = atext.replace('{n}', ql + name + qr)
        exp_alias = name
    item = ref + atext.format(w=w)
    text = ctx[1].format(X=item, A=neigh[0].format(w=w), B=neigh[1].format(w=w), w=w)
    return text, item, {'real': name, 'parent': exp_parent, 'alias': exp_alias,
                        'name': exp_alias or name, 'has_alias': exp_alias is not None}


def check(sqlparse, text, item, exp):
    from sqlparse import sql
    try:
        stmts = sqlparse.parse(text)
    except Exception as e:  # noqa
        return ('parse-exception', oracles.crash_site(e), repr(e)[:120])
    if len(stmts) != 1:
        return ('statement-count', str(len(stmts)), text)
    found = [n for n, _ in oracles.walk_nodes(stmts[0], (stmts[0],), []) if isinstance(n, sql.Identifier)
             and str(n) == item]
    if not found:
        return ('no-identifier-node', 'missing', f'no Identifier with text {item!r}')
    node = found[0]
    try:
        got = {'real': node.get_real_name(), 'parent': node.get_parent_name(), 'alias': node.get_alias(),
               'name': node.get_name(), 'has_alias': node.has_alias()}
    except Exception as e:  # noqa
        return ('accessor-exception', oracles.crash_site(e), repr(e)[:120])
    for k in ('real', 'parent', 'alias', 'name', 'has_alias'):
        if got[k] != exp[k]:
            return ('accessor-wrong', k, f'{k}: got {got[k]!r} expected {exp[k]!r} for item {item!r}')
    return None


def run(tier, seed):
    tasks = core.rotate(list(cases(tier)), seed)

    def work(chunk):
        import sqlparse
        acc = core.Acc(bits=24)
        for name, ql, qr in chunk:
            for qual, alias, w, ctx, neigh in itertools.product(QUALS, ALIASES + (ALIASES_GLUED if qr else []), WS,
                                                                 CONTEXTS, NEIGH):
                if '{A}' not in ctx[1] and '{B}' not in ctx[1] and neigh is not NEIGH[0]:
                    continue
                text, item, exp = build(name, ql, qr, qual, alias, w, ctx, neigh)
                bad = check(sqlparse, text, item, exp)
                acc.case(text, True, outcome=ctx[0], sample={'text': text, 'item': item, 'expected': exp})
                if bad:
                    quoting = {'': 'bare', '"': 'dq', '`': 'bq'}[ql]
                    cube = f'{bad[1]}|ctx={ctx[0]}|quote={quoting}|qual={"none" if qual is None else (qual[1] or "bare")}|alias={alias[0].replace("{w}", "_")}'
                    acc.violation({'kind': bad[0], 'sig': cube, 'detail': bad[2], 'text': text, 'item': item,
                                   'expected': exp, 'size': len(text)})
        return acc.dump()
    merged = core.merge(core.pmap(work, [[t] for t in tasks]))
    cov = {
        'evaluations': merged['n'], 'distinct_nontrivial': merged['distinct'],
        'rule': 'FULL PRODUCT name spelling x quoting (bare, "..", `..`) x qualifier (none, bare, "..", `..`) x alias '
                '(none, bare, AS bare, as "quoted", `backquoted`, AS "with blank", mixed case) x whitespace (blank, two '
                'blanks, newline, tab) x syntactic context (20: select list only/first/middle/last, FROM, FROM list, '
                'JOIN, LEFT OUTER JOIN..USING, UPDATE, INSERT INTO, DELETE FROM, sub-query item / FROM, sub-queries aliased with AS, scalar sub-query, CTE, EXISTS) x '
                'neighbour items (3). Every case is non-trivial; distinct by text (hashed bitmap, lower bound).',
        'samples': merged['samples'][:6], 'exhaustive': True, 'outcomes': dict(merged['outcomes']),
        'dimensions': {'name x quoting': len(list(cases(tier))), 'qualifiers': len(QUALS),
                       'aliases': len(ALIASES), 'whitespace': len(WS), 'contexts': len(CONTEXTS), 'neighbours': len(NEIGH)},
        'oracle': 'the tree contains an Identifier whose text is exactly the written reference (with alias) and whose '
                  'get_real_name / get_parent_name / get_alias / get_name / has_alias return the written parts with '
                  'quotes removed',
    }
    return core.Result('C12', 'exploration', cov, violations=merged['viol'], viol_count=merged['viol_count'],
                       assumptions=['identifier spellings are non-keywords; the period is written without blanks '
                                    '(the property speaks of "qualifier.name")'])


def replay(case):
    import sqlparse
    bad = check(sqlparse, case['text'], case['item'], case['expected'])
    return {'text': case['text'], 'violation': bool(bad), 'observed': bad}
