"""C16 no lexical rule can backtrack exponentially - E4 (regex NFA self-product) + conformance + pumps."""
import itertools
import json
import os
import re
import subprocess
import sys

from vlib import core, nfa, oracles
from checks import _e1parse

FLAGS = re.IGNORECASE | re.UNICODE


def analyse_rule(idx, pattern, reps, conf_len):
    """Everything about one rule (runs in a worker)."""
    out = {'rule': idx, 'pattern': pattern}
    m = nfa.Model(pattern, FLAGS)
    el = nfa.Eliminated(m)
    creps, amatch = nfa.classes_for(m, reps)
    out['nfa_states'] = m.n
    out['consuming_states'] = len(el.states)
    out['classes'] = len(creps)
    out['approx'] = sorted(set(m.approx))
    out['eps_cycles'] = len(el.inf)
    ps, pt, wit = nfa.find_eda(el, amatch, len(creps))
    out['product_states'] = ps
    out['product_transitions'] = pt
    out['eda'] = None
    if el.inf:
        out['eda'] = {'kind': 'epsilon-cycle', 'detail': repr(el.inf[:2])}
    elif wit:
        ws = []
        for q0, word in wit:
            pre = nfa.shortest_to(el, amatch, q0) or []
            ws.append({'prefix': ''.join(creps[c] for c in pre), 'pump': ''.join(creps[c] for c in word)})
        out['eda'] = {'kind': 'two-paths-on-one-word', 'prefix': ws[0]['prefix'], 'pump': ws[0]['pump'],
                      'witnesses': ws, 'class_chars': creps}
    # ---- conformance: model vs re on every word over the rule's classes up to conf_len
    rx = re.compile(pattern, FLAGS)
    exact = not m.approx
    n_words = 0
    problems = []
    for k in range(0, conf_len + 1):
        if len(creps) ** k > 400000:
            break
        for w in itertools.product(range(len(creps)), repeat=k):
            n_words += 1
            text = ''.join(creps[c] for c in w)
            mm = rx.match(text)
            acc = nfa.accepted_prefix_lengths(el, amatch, w)
            if mm is not None and mm.end() not in acc:
                problems.append(f're matches {text!r} up to {mm.end()}, model accepts prefixes {sorted(acc)}')
            if exact and (mm is None) != (not acc):
                problems.append(f're {"matches" if mm else "rejects"} {text!r}, model accepts prefixes {sorted(acc)}')
            if len(problems) > 3:
                break
    out['conformance_words'] = n_words
    out['conformance_problems'] = problems[:3]
    # ---- pump strings for every loop state (concrete clause)
    pumps = []
    for q in el.states:
        cyc = nfa.shortest_cycle(el, amatch, q)
        if not cyc:
            continue
        pre = nfa.shortest_to(el, amatch, q)
        if pre is None:
            continue
        pumps.append((''.join(creps[c] for c in pre), ''.join(creps[c] for c in cyc)))
    seen, uniq = set(), []
    for p in pumps:
        if p not in seen:
            seen.add(p)
            uniq.append(p)
    out['pumps'] = uniq[:12]
    return out


BUDGET_S = 2.0          # a few thousand characters must tokenize well inside this (CPU time)
CHILD = [sys.executable, '-B', os.path.join(os.path.dirname(os.path.dirname(os.path.abspath(__file__))), 'vlib', 'timing_child.py')]


def _child(job, timeout):
    """run a timing job in a child that is killed on timeout -> (lines of JSON output, timed_out)"""
    job = dict(job)
    job['repo'] = core.REPO
    p = subprocess.Popen(CHILD, stdin=subprocess.PIPE, stdout=subprocess.PIPE, stderr=subprocess.DEVNULL, text=True)
    try:
        out, _ = p.communicate(json.dumps(job), timeout=timeout)
        to = False
    except subprocess.TimeoutExpired:
        p.kill()
        out, _ = p.communicate()
        to = True
    lines = []
    for ln in (out or '').splitlines():
        try:
            lines.append(json.loads(ln))
        except ValueError:
            pass
    return lines, to


def confirm_exponential(pattern, witnesses, class_chars=()):
    """time single match attempts of the rule at growing pump counts (in a child, killed after a timeout);
    super-polynomial growth or a timeout confirms the blow-up"""
    best = None
    for w in witnesses[:6]:
        lines, to = _child({'mode': 'confirm', 'pattern': pattern, 'prefix': w['prefix'], 'pump': w['pump'],
                            'suffixes': list(class_chars)[:12]}, 20)
        times = []
        for ln in lines:
            times = ln.get('done') or ln.get('progress') or times
        grow = [b[1] / a[1] for a, b in zip(times, times[1:]) if a[1] > 0.002]
        confirmed = to or (len(grow) >= 1 and min(grow[-2:]) > 3.0 and times and times[-1][1] > 0.2)
        best = (times, confirmed, w, to)
        if confirmed:
            break
    return best


def run_pumps(items, size):
    """[(rule index, pattern, prefix, pump, worst cpu, doubling ratio, description)]; a pump whose child has to be
    killed is reported with cpu = inf"""
    def work(chunk):
        lines, to = _child({'mode': 'pumps', 'items': chunk, 'size': size}, 60)
        got = [tuple(ln['item']) for ln in lines if 'item' in ln]
        if to:
            done = {(g[0], g[2], g[3]) for g in got}
            for it in chunk:
                if (it[0], it[2], it[3]) in done:
                    continue
                l2, to2 = _child({'mode': 'pumps', 'items': [it], 'size': size}, 8)
                g2 = [tuple(ln['item']) for ln in l2 if 'item' in ln]
                if g2:
                    got += g2
                else:
                    got.append((it[0], it[1], it[2], it[3], float('inf'), 0.0, f'{it[2]!r}+{it[3]!r}*N (child killed after 8 s)'))
        return got
    # timing runs use at most half the cores so they are not starved
    return [x for ch in core.pmap(work, core.chunked(items, max(8, len(items) // 6 + 1)), procs=max(1, core.NPROC // 2))
            for x in ch]


def run(tier, seed):
    from sqlparse import keywords, lexer
    rules = [rx for rx, _, _ in oracles.active_rules()]     # what the lexer compiled, not only what keywords.py says
    reps = _e1parse.cls_alphabet()
    conf_len = 5 if tier == 'quick' else 6
    items = core.rotate(list(enumerate(rules)), seed)

    def work(item):
        i, rx = item
        try:
            return analyse_rule(i, rx, reps, conf_len)
        except NotImplementedError as e:
            return {'rule': i, 'pattern': rx, 'model_error': repr(e)}
    res = sorted(core.pmap(work, items), key=lambda r: r['rule'])
    viols, model_errors = [], []
    states = trans = words = 0
    samples = []
    unconfirmed = []
    for r in res:
        if 'model_error' in r:
            model_errors.append(f'rule {r["rule"]} not modelled: {r["model_error"]}')
            continue
        states += r['product_states']
        trans += r['product_transitions']
        words += r['conformance_words']
        for p in r['conformance_problems']:
            model_errors.append(f'model/implementation disagree on rule {r["rule"]} {r["pattern"]!r}: {p}')
        if r['eda']:
            if r['eda']['kind'] == 'two-paths-on-one-word':
                times, confirmed, w, to = confirm_exponential(r['pattern'], r['eda']['witnesses'], r['eda']['class_chars'])
                how = f'timing {times}' + (' (child killed: did not finish)' if to else '')
            else:
                confirmed, w, how = True, {'prefix': '', 'pump': ''}, r['eda']['detail']
            rec = {'kind': 'exponential-ambiguity', 'sig': f'rule{r["rule"]}:{r["pattern"][:40]}', 'rule': r['pattern'],
                   'text': w['prefix'] + w['pump'] * 3, 'eda': {k: v for k, v in r['eda'].items() if k != 'class_chars'},
                   'detail': f'two different paths on the same word from a loop state (prefix {w["prefix"]!r}, pump '
                             f'{w["pump"]!r}); {how}', 'size': r['rule']}
            if confirmed:
                viols.append(rec)
            else:
                unconfirmed.append(rec)
    # concrete clause: pumps through the real tokenizer
    size = 4000 if tier == 'quick' else 8000
    pump_items = []
    flagged = {v['rule'] for v in viols}
    for r in res:
        if r['pattern'] in flagged:
            continue           # its pumps would not terminate; the ambiguity is already reported
        for pre, pump in r.get('pumps', []):
            pump_items.append((r['rule'], r['pattern'], pre, pump))
    pump_items = core.rotate(pump_items, seed)
    pr = run_pumps(pump_items, size)
    slow = [x for x in pr if x[4] > BUDGET_S or (x[4] > 0.3 and x[5] > 6.5)]
    for ri, pat, pre, pump, t, ratio, desc in slow:
        # re-measure alone before reporting (timing is the one non-deterministic observation here)
        again = run_pumps([(ri, pat, pre, pump)], size)
        t2, ratio2, desc2 = again[0][4], again[0][5], again[0][6]
        if t2 > BUDGET_S or (t2 > 0.3 and ratio2 > 6.5):
            viols.append({'kind': 'pump-too-slow', 'sig': f'rule{ri}:{pat[:40]}', 'rule': pat, 'text': desc2,
                          'prefix': pre, 'pump': pump, 'detail': f'{t2:.2f}s CPU, doubling ratio {ratio2:.1f} for {desc2}',
                          'size': ri})
    for r in res[:3]:
        if 'pumps' in r:
            samples.append({'rule': r['pattern'], 'product_states': r['product_states'], 'pumps': r['pumps'][:2]})
    cov = {
        'states': max(1, states), 'transitions': max(1, trans), 'traces_validated_against_impl': words,
        'samples': samples or [{'rule': rules[0]}],
        'rules': len(rules), 'rules_with_overapproximation': sum(1 for r in res if r.get('approx')),
        'pump_strings': len(pr), 'pump_size_chars': size,
        'slowest_pump': max(((x[4], x[6]) for x in pr), default=(0, ''))[1],
        'slowest_pump_cpu_s': round(min(99.0, max((x[4] for x in pr), default=0)), 3),
        'unconfirmed_model_ambiguities': [u['sig'] for u in unconfirmed],
        'exhaustive': True,
        'explanation': 'per rule: re._parser tree -> Thompson epsilon-NFA over the rule\'s own code-point classes '
                       '(look-arounds/anchors as epsilon, back-reference as Sigma*: both only add paths) -> epsilon '
                       'elimination keeping one edge per distinct epsilon path -> reachable states of the self-product '
                       'with a divergence bit from every (q,q,0); EDA iff (q,q,1) is reachable. Conformance: every word '
                       'over the rule\'s classes up to the length bound: re\'s match end must be an accepted prefix '
                       'length of the model (and match/no-match must agree for rules modelled exactly). Concrete '
                       'clause: prefix + cycle^N + suffix for every loop state through the real tokenizer under a CPU '
                       'budget.',
    }
    return core.Result('C16', 'model_checking', cov, violations=viols, model_errors=model_errors[:6],
                       assumptions=['CPython re is a backtracking matcher whose search paths are the NFA paths',
                                    'polynomial (e.g. quadratic) cost is within the property',
                                    'CPU-time measurements use a wide margin and are re-measured before being reported'])


def replay(case):
    from sqlparse import keywords, lexer
    if case['kind'] == 'pump-too-slow':
        again = run_pumps([(0, case['rule'], case['prefix'], case['pump'])], 4000)
        t, ratio, desc = again[0][4], again[0][5], again[0][6]
        bad = t > BUDGET_S or (t > 0.3 and ratio > 6.5)
        return {'violation': bool(bad), 'observed': {'slow': bad, 'where': desc}}
    rules = [rx for rx, _, _ in oracles.active_rules()]
    hit = [rx for rx in rules if rx == case['rule']]
    if not hit:
        return {'violation': False, 'observed': 'rule no longer present'}
    r = analyse_rule(0, hit[0], _e1parse.cls_alphabet(), 3)
    return {'violation': bool(r['eda']), 'observed': r['eda']}
