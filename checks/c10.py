"""C10 requested layout normal forms are achieved - E2, postconditions on the re-tokenised output."""
import itertools

from vlib import core, e2, oracles, options, grammar

CLAUSE = {'FROM', 'WHERE', 'AND', 'OR', 'GROUP BY', 'ORDER BY', 'HAVING', 'LIMIT', 'UNION', 'UNION ALL',
          'EXCEPT', 'SET'}


def _toks(text):
    from sqlparse import lexer
    return [(oracles.tname(tt), v) for tt, v in lexer.tokenize(text)]


def _is_ws(tn):
    return tn.startswith('Text.Whitespace')


def _is_cm(tn):
    return tn.startswith('Comment')


def post_strip_ws(out):
    """(a) on the re-tokenised output (DESIGN 4.0 reading 3)."""
    tk = _toks(out)
    if not tk:
        return None
    if _is_ws(tk[0][0]):
        return ('leading-blank', repr(out[:20]))
    if _is_ws(tk[-1][0]):
        return ('trailing-blank', repr(out[-20:]))
    for i in range(len(tk) - 1):
        if _is_ws(tk[i][0]) and _is_ws(tk[i + 1][0]):
            near_cm = (i > 0 and _is_cm(tk[i - 1][0])) or (i + 2 < len(tk) and _is_cm(tk[i + 2][0]))
            return ('double-blank' + ('-next-to-comment' if near_cm else ''), repr(''.join(v for _, v in tk[max(0, i - 2):i + 4])))
    for i, (tn, v) in enumerate(tk):
        if tn == 'Punctuation' and v == '(' and i + 1 < len(tk) and _is_ws(tk[i + 1][0]):
            if not ((i + 2 < len(tk) and _is_cm(tk[i + 2][0])) or (i > 0 and _is_cm(tk[i - 1][0]))):
                return ('blank-after-open-paren', repr(''.join(v for _, v in tk[max(0, i - 1):i + 4])))
        if tn == 'Punctuation' and v == ')' and i > 0 and _is_ws(tk[i - 1][0]):
            # (a comment right behind the parenthesis - directly or after a blank - is attached to it by the parser:
            # that is "next to a comment" too)
            after = [t for t, _ in tk[i + 1:i + 3]]
            if not ((i > 1 and _is_cm(tk[i - 2][0])) or (after and _is_cm(after[0]))
                    or (len(after) > 1 and _is_ws(after[0]) and _is_cm(after[1]))):
                return ('blank-before-close-paren', repr(''.join(v for _, v in tk[max(0, i - 3):i + 2])))
    return None


def post_spaces(out):
    tk = _toks(out)
    for i, (tn, v) in enumerate(tk):
        if tn == 'Operator' or tn.startswith('Operator.'):
            if i > 0 and not _is_ws(tk[i - 1][0]):
                return ('operator-without-left-blank', repr(''.join(x for _, x in tk[max(0, i - 2):i + 3])))
            if i + 1 < len(tk) and not _is_ws(tk[i + 1][0]):
                return ('operator-without-right-blank', repr(''.join(x for _, x in tk[max(0, i - 2):i + 3])))
    return None


def post_reindent(out):
    tk = _toks(out)
    # "no line ends in a blank" is about layout: a whitespace token directly before a line break or
    # the end of the output (blanks inside quoted text / literals are content, not layout)
    for i, (tn, v) in enumerate(tk):
        if tn == 'Text.Whitespace' and (i + 1 == len(tk) or tk[i + 1][0] == 'Text.Whitespace.Newline'):
            return ('line-ends-in-blank', repr(''.join(x for _, x in tk[max(0, i - 3):i + 2])))
    between = 0
    for i, (tn, v) in enumerate(tk):
        if not (tn == 'Keyword' or tn.startswith('Keyword.')):
            continue
        word = ' '.join(v.upper().split())
        if word == 'BETWEEN':
            between += 1
            continue
        is_join = word.endswith('JOIN')
        if word not in CLAUSE and not is_join:
            continue
        if word == 'AND' and between:
            between -= 1
            continue
        j = i - 1
        while j >= 0 and tk[j][0] == 'Text.Whitespace':
            j -= 1
        if j < 0:
            continue
        ptn, pv = tk[j]
        if ptn == 'Text.Whitespace.Newline':
            continue
        if _is_cm(ptn) and pv.endswith(('\n', '\r')):
            continue
        return ('clause-keyword-not-at-line-start', f'{"JOIN" if is_join else word}|after:{ptn.split(".")[0]}',
                repr(''.join(x for _, x in tk[max(0, i - 4):i + 2])))
    return None


def check_case(sqlparse, text, opts):
    try:
        out = sqlparse.format(text, **dict(opts))
    except sqlparse.exceptions.SQLParseError:
        return None
    except Exception as e:  # noqa
        return ('format-crash', oracles.crash_site(e), repr(e)[:160])
    which = None
    bad = None
    if opts.get('reindent'):
        which = 'reindent'
        r = post_reindent(out)
        if r:
            bad = (r[0], which + '|' + (r[1] if len(r) == 3 else ''), r[-1])
    elif opts.get('strip_whitespace'):
        which = 'strip_whitespace'
        r = post_strip_ws(out)
        if r:
            bad = (r[0], which, r[1])
    elif opts.get('use_space_around_operators'):
        which = 'spaces'
        r = post_spaces(out)
        if r:
            bad = (r[0], which, r[1])
    if bad:
        sig = bad[1]
        if bad[0] == 'line-ends-in-blank':
            # root cause classification: a dollar-quoted / back-quoted token holding an unpaired ' or "
            # derails the serializer's quote tracking (it only knows '..' and ".." as quoted text)
            tricky = any((tn == 'Literal' or v.startswith('`')) and (v.count("'") % 2 or v.count('"') % 2)
                         for tn, v in _toks(text))
            sig += 'unpaired-quote-inside-dollar-or-backtick-token' if tricky else 'plain'
        if bad[0] == 'clause-keyword-not-at-line-start' and '|WHERE|' in sig + '|':
            inner = _where_inside_where(sqlparse, text)
            if inner:
                sig += '|inside-where-behind:' + inner
        return (bad[0], sig, f'{bad[2]}; output={out!r}')
    if which in ('strip_whitespace', 'spaces'):
        try:
            out2 = sqlparse.format(out, **dict(opts))
        except Exception as e:  # noqa
            return ('format-crash', 'second-pass|' + oracles.crash_site(e), repr(e)[:160])
        if out2 != out:
            d = next((i for i, (a, b) in enumerate(zip(out, out2)) if a != b), min(len(out), len(out2)))
            ctx = _toks(out[:d + 1])
            near = 'near-comment' if any(_is_cm(t) for t, _ in ctx[-4:]) or '/*' in out[max(0, d - 12):d + 12] or '--' in out[max(0, d - 12):d + 12] else 'plain'
            return ('not-a-fixed-point', f'{which}|{near}', f'first={out!r} second={out2!r}')
    return None


def _where_inside_where(sqlparse, text):
    """root cause of a WHERE that reindent leaves inside a line: the parser kept it as a plain keyword inside the
    Where node of the query in front, because the set operator between them does not end a Where node"""
    from sqlparse import sql, tokens as T
    for st in sqlparse.parse(text):
        for node, _ in oracles.walk_nodes(st, (st,), []):
            if isinstance(node, sql.Where):
                last_kw = None
                for i, tok in enumerate(node.tokens):
                    if tok.ttype is T.Keyword and i > 0 and tok.normalized == 'WHERE':
                        return (last_kw or 'none').lower()
                    if tok.ttype is T.Keyword and tok.normalized in ('INTERSECT', 'MINUS', 'UNION', 'UNION ALL', 'EXCEPT'):
                        last_kw = tok.normalized
    return None


def _setup():
    import sqlparse
    return sqlparse


def _mk_eval(optsets):
    def ev(b, over, seed_name, d, acc, sqlparse):
        text = b.text()
        for o in optsets:
            acc.extra['format_calls'] += 1
            bad = check_case(sqlparse, text, o)
            if bad:
                acc.violation(e2.viol(bad[0], bad[1], bad[2], text, over, seed_name, d, o))
        acc.case(text, True, outcome='script', sample={'text': text, 'seed': seed_name})
    return ev


def reindent_product():
    out = []
    for tabs, width, first, cols, wrap, comma, compact in itertools.product(
            [False, True], [1, 2, 4], [False, True], [False, True], [0, 5, 40], [False, True], [False, True]):
        o = {'reindent': True}
        if tabs:
            o['indent_tabs'] = True
        if width != 2:
            o['indent_width'] = width
        if first:
            o['indent_after_first'] = True
        if cols:
            o['indent_columns'] = True
        if wrap:
            o['wrap_after'] = wrap
        if comma:
            o['comma_first'] = True
        if compact:
            o['compact'] = True
        out.append(o)
    return out


def operator_texts():
    import itertools
    op1 = ['=', '<', '>=', '<>', '!=', '+', '-', '/', '||', '%', '->', '@>', '<@']
    op2 = ['', '-', '+', '~', '@', '!']
    out = []
    for a, b, l, m, r in itertools.product(op1, op2, ('', ' '), ('', ' '), ('', ' ')):
        if not b and m:
            continue
        mid = l + a + m + b + r
        out.append(f'select x{mid}y from t')
        out.append(f'select 1 from t where x{mid}1 and z{mid}(2)')
        out.append(f'update t set x = x{mid}y')
    return out


def run(tier, seed):
    seeds = list(range(len(grammar.SEEDS)))
    base = [{'strip_whitespace': True}, {'use_space_around_operators': True}, {'reindent': True}]
    sub1 = [o for o in options.sets_within([g for g in options.LAYOUT if g[0] in options.REINDENT_SUB or g[0] == 'indent_columns'], 1) if o]
    sub2 = [o for o in options.sets_within([g for g in options.LAYOUT if g[0] in options.REINDENT_SUB or g[0] == 'indent_columns'], 2) if len(o) > 2]
    fam = {'der', 'cm', 'lit', 'style', 'ws0', 'wstyle'}
    if tier == 'quick':
        blocks = [('<=1 of {derivation, comment, literal, style, gap toggle} x {strip_whitespace, spaces, reindent, '
                   'reindent + one sub-option}', fam, 1, base + sub1),
                  ('seed x every reindent sub-option combination (288)', set(), 0, reindent_product())]
    else:
        blocks = [('<=2 of {comment, gap toggle} x {strip_whitespace, spaces, reindent}', {'cm', 'ws0'}, 2, base),
                  ('<=2 of {literal, style, uniform whitespace style} x {strip_whitespace, spaces, reindent}',
                   {'lit', 'style', 'wstyle'}, 2, base),
                  # (pairs across these groups and pairs with a derivation alternative - most of the ~3 M pairs - are
                  # left to the <=1 blocks)
                  ('<=1 of {derivation, comment, literal, style, gap toggle} x {strip_whitespace, spaces, reindent}', fam, 1, base),
                  ('<=1 deviation x reindent + <=2 sub-options', fam, 1, sub1 + sub2),
                  ('<=1 of {style, derivation} x every reindent sub-option combination (288)', {'style', 'der'}, 1,
                   reindent_product())]
    viols, vc = [], None
    n_eval = n_dist = 0
    report, samples = [], []
    for label, active, bound, osets in blocks:
        m, info = e2.run(seeds, active, bound, _mk_eval(osets), seed, setup=_setup,
                         bits=25 if tier == 'thorough' else 22)
        viols += m['viol']
        vc = m['viol_count'] if vc is None else (vc.update(m['viol_count']) or vc)
        n_eval += m['extra']['format_calls']
        n_dist += m['distinct']
        samples += m['samples'][:2]
        info.update({'label': label, 'option_sets': len(osets), 'scripts': m['n'],
                     'format_calls': m['extra']['format_calls']})
        report.append(info)
    # ---- multi-statement scripts
    scripts = e2.script_texts(tier)
    s_opts = base + sub1[:4]

    def ev_script(text, acc, sqlparse):
        for o in s_opts:
            acc.extra['format_calls'] += 1
            bad = check_case(sqlparse, text, o)
            if bad:
                acc.violation(e2.viol(bad[0], bad[1] + '|script', bad[2], text, {}, 'script', 1, o))
        acc.case(text, True, outcome='script', sample={'script': text})
    ms = e2.run_texts(scripts, ev_script, seed, setup=_setup)
    viols += ms['viol']
    vc.update(ms['viol_count'])
    n_eval += ms['extra']['format_calls']
    n_dist += ms['distinct']
    samples += ms['samples'][:2]
    report.append({'label': 'scripts of 2-3 seed statements x every separator filler x the three options + reindent sub-options',
                   'scripts': ms['n'], 'option_sets': len(s_opts), 'format_calls': ms['extra']['format_calls']})
    # ---- operator neighbourhoods: two operator tokens next to each other, with and without blanks
    otexts = operator_texts()
    o_opts = [dict(use_space_around_operators=True), dict(use_space_around_operators=True, strip_whitespace=True)]

    def ev_ops(text, acc, sqlparse):
        for o in o_opts:
            acc.extra['format_calls'] += 1
            bad = check_case(sqlparse, text, o) if len(o) == 1 else None
            if len(o) == 2:
                bad = check_case(sqlparse, text, dict(use_space_around_operators=True, strip_whitespace=False)) and None
                try:
                    out = sqlparse.format(text, **o)
                    r = post_spaces(out)
                    bad = (r[0], 'spaces+strip_whitespace', f'{r[1]}; output={out!r}') if r else None
                except sqlparse.exceptions.SQLParseError:
                    bad = None
                except Exception as e:  # noqa
                    bad = ('format-crash', oracles.crash_site(e), repr(e)[:160])
            if bad:
                acc.violation(e2.viol(bad[0], bad[1] + '|operators', bad[2], text, {}, 'operators', 1, o))
        acc.case(text, True, outcome='operators', sample={'text': text})
    mo = e2.run_texts(otexts, ev_ops, seed, setup=_setup)
    viols += mo['viol']
    vc.update(mo['viol_count'])
    n_eval += mo['extra']['format_calls']
    n_dist += mo['distinct']
    report.append({'label': 'two adjacent operator tokens (13 binary x 6 unary) x blanks left / between / right x 3 contexts',
                   'scripts': mo['n'], 'option_sets': len(o_opts), 'format_calls': mo['extra']['format_calls']})
    cov = {
        'evaluations': n_eval, 'distinct_nontrivial': n_dist,
        'rule': 'cases as in C06 (seed derivations, <= d deviations) x the three named options, reindent with every '
                'sub-option combination. evaluations = format() calls; distinct = distinct script texts (hashed '
                'bitmap, lower bound); every script is a full statement.',
        'samples': samples, 'exhaustive': True, 'blocks': report,
        'oracle': 'on the re-tokenised output: (a) strip_whitespace: first/last token not whitespace, no two adjacent '
                  'whitespace tokens, no whitespace after ( / before ) unless a comment is adjacent, fixed point; '
                  '(b) spaces: every Operator/Comparison token has a whitespace token on both sides, fixed point; '
                  '(c) reindent: every clause keyword of the property list is at a line start (AND inside BETWEEN '
                  'exempt) and no line ends in a blank',
    }
    return core.Result('C10', 'exploration', cov, violations=viols, viol_count=vc,
                       assumptions=['verification grammar as program space', 'DESIGN 4.0 reading 3'])


def replay(case):
    import sqlparse
    bad = check_case(sqlparse, case['text'], case.get('opts') or {})
    return {'text': case['text'], 'opts': case.get('opts'), 'violation': bool(bad), 'observed': bad}
