"""C07 totality: any text x any valid option set -> result or SQLParseError - E1 x configurations."""
import io

from vlib import core, e1, oracles, spaces, options

# fragments the filters key on (format part)
F = ['a', '1', "'s'", ' ', '\n', ',', '(', ')', ';', '=', '+', '*', '.', '--c\n', '/*c*/',
     'select', 'from', 'where', 'and', 'between', 'case', 'when', 'then', 'else', 'end', 'as',
     'join', 'on', 'order by', 'group by', 'values', 'insert', 'into', 'union', 'f(', 'over', 'limit',
     'set', 'update', 'create', 'table', 'or', 'having', 'in', 'desc', 'with']

ACCESSORS = ['get_type', 'get_name', 'get_alias', 'get_real_name', 'get_parent_name', 'has_alias',
             'get_identifiers', 'get_parameters', 'get_window', 'get_typecast', 'get_ordering',
             'get_array_indices', 'is_wildcard', 'is_multiline', 'token_first', 'get_sublists',
             'flatten']


def run_accessors(node):
    """Call every read-only accessor the node has; return (name, exc) of the first failure."""
    for name in ACCESSORS:
        f = getattr(node, name, None)
        if f is None:
            continue
        try:
            r = f()
            if r is not None and not isinstance(r, (str, bool, int, list, tuple)) and hasattr(r, '__iter__') \
                    and not hasattr(r, 'ttype'):
                list(r)
        except Exception as e:  # noqa
            return name, e
    try:
        repr(node)
        str(node)
        if hasattr(node, 'tokens'):
            if hasattr(node, 'get_cases'):
                node.get_cases()
                node.get_cases(skip_ws=True)
            if type(node).__name__ == 'Comparison':
                node.left
                node.right
            node.token_first(skip_ws=False, skip_cm=True)
            node.token_first(skip_cm=True)
    except Exception as e:  # noqa
        return 'repr/get_cases/left/right/token_first', e
    return None


def check_tree(sqlparse, text):
    """parse + every accessor on every node + split both ways. Returns (stmts, violation|None)."""
    SPE = sqlparse.exceptions.SQLParseError
    try:
        stmts = sqlparse.parse(text)
    except SPE:
        return None, None
    except Exception as e:  # noqa
        return None, ('crash', 'parse|' + oracles.crash_site(e), repr(e)[:160])
    for s in stmts:
        nodes = [(s, ())] + oracles.walk_nodes(s, (s,), [])
        for node, _ in nodes:
            try:
                bad = run_accessors(node)
            except SPE:
                bad = None
            if bad:
                name, e = bad
                if isinstance(e, SPE):
                    continue
                return stmts, ('crash', f'{type(node).__name__}.{name}|' + oracles.crash_site(e), repr(e)[:160])
        try:
            s._pprint_tree(f=io.StringIO())
        except Exception as e:  # noqa
            return stmts, ('crash', '_pprint_tree|' + oracles.crash_site(e), repr(e)[:160])
    for ss in (False, True):
        try:
            sqlparse.split(text, strip_semicolon=ss)
        except SPE:
            pass
        except Exception as e:  # noqa
            return stmts, ('crash', f'split(strip_semicolon={ss})|' + oracles.crash_site(e), repr(e)[:160])
    return stmts, None


def check_format(sqlparse, text, opts):
    try:
        out = sqlparse.format(text, **dict(opts))
        if not isinstance(out, str):
            return ('bad-result', 'format-not-str', repr(out)[:100])
    except sqlparse.exceptions.SQLParseError:
        return None
    except Exception as e:  # noqa
        return ('crash', 'format|' + oracles.crash_site(e), repr(e)[:160])
    return None


def _setup():
    import sqlparse
    return sqlparse


def _eval_tree(text, frags, space, acc, sqlparse):
    stmts, bad = check_tree(sqlparse, text)
    acc.case(text, bool(stmts) and oracles.has_group(stmts), outcome='tree', sample=text)
    if bad:
        acc.violation(e1.viol(bad[0], bad[1], bad[2], text, frags, space))


def _mk_eval_format(optsets):
    def ev(text, frags, space, acc, sqlparse):
        first = None
        for o in optsets:
            bad = check_format(sqlparse, text, o)
            acc.extra['format_calls'] += 1
            if bad:
                v = e1.viol(bad[0], bad[1], bad[2], text, frags, space)
                v['opts'] = o
                v['size'] += 10 * len(o)
                acc.violation(v)
                first = first or bad
        acc.case(text, len(frags) >= 2, outcome='format-crash' if first else 'format-ok', sample=text)
    return ev


class Spy(io.StringIO):
    consumed = False

    def read(self, *a):
        self.consumed = True
        return super().read(*a)


def invalid_option_checks(sqlparse):
    viols, n = [], 0
    for o, why in options.invalid_cases():
        n += 1
        spy = Spy('select 1')
        try:
            sqlparse.format(spy, **dict(o))
            viols.append({'kind': 'invalid-option-accepted', 'sig': why.split('=')[0] + '=' + type(list(o.values())[-1]).__name__,
                          'detail': f'format accepted {why}', 'text': 'select 1', 'opts': o, 'size': 1})
        except sqlparse.exceptions.SQLParseError:
            if spy.consumed:
                viols.append({'kind': 'invalid-option-late', 'sig': why, 'detail': 'input consumed before rejection',
                              'text': 'select 1', 'opts': o, 'size': 1})
        except Exception as e:  # noqa
            viols.append({'kind': 'invalid-option-wrong-exception',
                          'sig': f'{why.split("=")[0]}|{oracles.crash_site(e)}',
                          'detail': f'{why}: {e!r}', 'text': 'select 1', 'opts': o, 'size': 1})
    return viols, n


def run(tier, seed):
    import sqlparse
    U, D = spaces.U, spaces.D
    one = options.sets_within(options.LAYOUT + options.TARGETED + options.OUTPUT, 1)
    two = options.sets_within(options.LAYOUT + options.TARGETED + options.OUTPUT, 2)
    three = options.sets_within(options.LAYOUT + options.TARGETED + options.OUTPUT, 3)
    single = options.SINGLE_FILTER
    if tier == 'quick':
        tree_spaces = [('U<=3 raw', U, 3, ''), ('U<=3 blank', U, 3, ' '), ('SPC<=2 raw', spaces.SPC, 2, '')] + \
                      [(f'{n}<=3 raw', D[n], 3, '') for n in sorted(D)]
        fmt = [([('F<=3 blank', F, 3, ' ')], single[:6]),
               ([('F<=2 raw', F, 2, ''), ('U<=2 blank', U, 2, ' ')], single + one),
               ([('U<=1', U, 1, '')], two)]
    else:
        tree_spaces = [('U<=4 raw', U, 4, ''), ('U<=3 blank', U, 3, ' '), ('SPC<=3 raw', spaces.SPC, 3, '')] + \
                      [(f'{n}<=4 raw', D[n], 4, '') for n in sorted(D)] + \
                      [(f'{n}<=4 blank', D[n], 4, ' ') for n in ('D1', 'D2', 'D6')]
        fmt = [([('F<=3 blank', F, 3, ' '), ('F<=3 raw', F, 3, ''), ('U<=3 blank', U, 3, ' ')], single),
               ([('F<=4 blank', F, 4, ' ')], single[:5]),
               ([('F<=2 raw', F, 2, ''), ('U<=2 blank', U, 2, ' '), ('U<=2 raw', U, 2, '')], two),
               ([('U<=1', U, 1, ''), ('F<=1', F, 1, '')], three)]
    merged, sizes = e1.run(tree_spaces, _eval_tree, seed, bits=27 if tier == 'thorough' else 23, setup=_setup)
    viols = list(merged['viol'])
    vc = merged['viol_count']
    n_eval, n_dist = merged['n'], merged['distinct']
    samples = merged['samples'][:4]
    fmt_report = []
    fcalls = 0
    for sp, optsets in fmt:
        m, sz = e1.run(sp, _mk_eval_format(optsets), seed, bits=22, setup=_setup)
        viols += m['viol']
        vc.update(m['viol_count'])
        n_eval += m['n']
        n_dist += m['distinct']
        fcalls += m['extra']['format_calls']
        samples += m['samples'][:2]
        fmt_report.append({'spaces': sz, 'option_sets': len(optsets),
                           'option_set_examples': [options.key(o) for o in optsets[:3] + optsets[-2:]],
                           'format_calls': m['extra']['format_calls'], 'outcomes': dict(m['outcomes'])})
    # structured malformed inputs: C09's product of block kinds x inner content ending in a middle token x comment
    # attached after the closer x what follows, under one option set per filter
    from checks import c09
    att = c09.attach_cases()
    if tier == 'quick':
        att = [c for c in att if c[0] in ('', 'select ')]
    m, sz = e1.run([], _mk_eval_format(single), seed, bits=22, setup=_setup, extra_cases=[('ATTACH product', att, '')])
    viols += m['viol']
    vc.update(m['viol_count'])
    n_eval += m['n']
    n_dist += m['distinct']
    fcalls += m['extra']['format_calls']
    fmt_report.append({'spaces': sz, 'option_sets': len(single), 'format_calls': m['extra']['format_calls'],
                       'outcomes': dict(m['outcomes'])})
    inv_viols, inv_n = invalid_option_checks(sqlparse)
    for v in inv_viols:
        vc[(v['kind'], v['sig'])] += 1
    cov = {
        'evaluations': n_eval, 'distinct_nontrivial': n_dist,
        'rule': 'tree part: every fragment sequence of the listed spaces through parse(), every read-only '
                'accessor on every node, _pprint_tree, split() with both strip_semicolon values; format '
                'part: fragment sequences x option sets sharing one budget (long inputs x one option set '
                'per filter; short inputs x every option set within 1, 2, 3 deviations from the default); '
                'invalid part: every documented option x an invalid-value menu with an input whose read() '
                'is instrumented. Non-trivial = tree has a group node (tree part) / input has >= 2 '
                'fragments (format part); distinct by text (hashed bitmap, lower bound).',
        'samples': samples, 'exhaustive': True, 'tree_spaces': sizes, 'format_blocks': fmt_report,
        'format_calls': fcalls, 'invalid_option_cases': inv_n,
        'option_sets': {'<=1 deviation': len(one), '<=2': len(two), '<=3': len(three),
                        'one-per-filter': len(single)},
        'outcomes': dict(merged['outcomes']),
        'oracle': 'returns normally or raises SQLParseError; any other exception is a violation identified '
                  'by (entry/accessor, exception type, innermost sqlparse frame). Invalid option value: '
                  'SQLParseError and the input object was not read.',
    }
    return core.Result('C07', 'exploration', cov, violations=viols + inv_viols, viol_count=vc,
                       assumptions=['documented options = docs/source/api.rst + strip_whitespace, '
                                    'indent_after_first, indent_columns (validated and exposed by the CLI); '
                                    'right_margin is undocumented/unimplemented by design and excluded',
                                    'RecursionError under pathological nesting is C15\'s subject'])


def replay(case):
    import sqlparse
    text = case['text']
    if case['kind'].startswith('invalid-option'):
        v, _ = invalid_option_checks(sqlparse)
        hit = [x for x in v if x['sig'] == case['sig']]
        return {'violation': bool(hit), 'observed': hit[:1]}
    if 'opts' in case:
        bad = check_format(sqlparse, text, case['opts'])
    else:
        _, bad = check_tree(sqlparse, text)
    return {'text': text, 'opts': case.get('opts'), 'violation': bool(bad), 'observed': bad}
