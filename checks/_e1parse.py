"""Shared by C02, C03, C04 (and C07/C09): the E1 spaces for the parsing pipeline."""
from vlib import spaces


def parse_spaces(tier, focus=()):
    """focus: driver names that get one more fragment of depth for this property."""
    U, D = spaces.U, spaces.D
    sp = []
    if tier == 'quick':
        sp += [('U<=3 raw', U, 3, ''), ('U<=3 blank', U, 3, ' ')]
        for name in sorted(D):
            sp.append((f'{name}<={4 if name in focus else 3} raw', D[name], 4 if name in focus else 3, ''))
        sp.append(('LEX<=3 raw', spaces.LEX, 3, ''))
    else:
        sp += [('U<=4 raw', U, 4, ''), ('U<=3 blank', U, 3, ' ')]
        for name in sorted(D):
            sp.append((f'{name}<={5 if name in focus else 4} raw', D[name], 5 if name in focus else 4, ''))
            sp.append((f'{name}<={4} blank', D[name], 4, ' '))
        sp.append(('LEX<=4 raw', spaces.LEX, 4, ''))
    return sp
