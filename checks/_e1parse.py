"""Shared by C02, C03, C04 (and C07/C09): the E1 spaces for the parsing pipeline."""
from vlib import spaces


def cls_alphabet():
    """one representative per code-point class of the CURRENT rule set (a rule change that makes
    the lexer distinguish a new character brings that character into the alphabet)"""
    from sqlparse import keywords
    from vlib import charclass, oracles
    one, two, info = charclass.representatives(oracles.rule_sources())
    return one


def parse_spaces(tier, focus=(), light=False):
    """focus: driver names that get one more fragment of depth for this property.
    light (quick tier of the costlier oracles): class representatives to length 2, no LEX space - the lexical
    layer is C01/C02's subject."""
    U, D = spaces.U, spaces.D
    light = light and tier == 'quick'
    sp = [('SPC<=3 raw', spaces.SPC, 3, ''), ('CLS<=%d raw' % (2 if light else 3), cls_alphabet(), 2 if light else 3, ''),
          ('ASG<=7 raw', spaces.ASG, 7, ''), ('MID<=%d blank' % (4 if light else 5), spaces.MID, 4 if light else 5, ' ')]
    if tier == 'quick':
        sp += [('U<=3 raw', U, 3, ''), ('U<=3 blank', U, 3, ' ')]
        for name in sorted(D):
            sp.append((f'{name}<={4 if name in focus else 3} raw', D[name], 4 if name in focus else 3, ''))
        if not light:
            sp.append(('LEX<=3 raw', spaces.LEX, 3, ''))
    else:
        sp += [('U<=4 raw', U, 4, ''), ('U<=3 blank', U, 3, ' ')]
        for name in sorted(D):
            sp.append((f'{name}<={5 if name in focus else 4} raw', D[name], 5 if name in focus else 4, ''))
            sp.append((f'{name}<={4} blank', D[name], 4, ' '))
        sp.append(('LEX<=4 raw', spaces.LEX, 4, ''))
    return sp
