"""C17 procedural bodies stay one statement - E3 product automaton (model checking) + trace conformance."""
import collections

from vlib import core, oracles, splitmodel as sm


def _label(real, events, ref_info):
    """root cause of a disagreement on a complete event list: first event whose real level delta
    differs from the reference depth delta (stepping the real splitter along the list)."""
    xs = real.initial()
    for (ev, splits, dd) in ref_info:
        xs2, rdelta, _ = real.step(xs, ev)
        if rdelta != dd:
            return f'{ev.upper()}: real {rdelta:+d}, ref {dd:+d}'
        if ev == ';':
            if bool(xs2[real.attrs.index('consume_ws')]) != splits:
                return f'SEMICOLON: real {"splits" if not splits else "does not split"}'
        xs = xs2
    return 'no-delta-difference'


def _ref_info(ref, events):
    """[(event, splits, depth delta)] by walking the reference along the events"""
    st = ref.initial()
    out = []
    for ev in events:
        for e, n, sp, dd in ref.enabled(st):
            if e == ev:
                out.append((ev, sp, dd))
                st = n
                break
        else:
            raise RuntimeError(f'event {ev} not enabled in {st}')
    return out, st


def check_script(sqlparse, real, ref, events, style):
    info, end = _ref_info(ref, events)
    text, exp = sm.render_pieces([(e, s) for e, s, _ in info], style)
    try:
        got = sqlparse.split(text)
        n_parse = len(sqlparse.parse(text))
    except Exception as e:  # noqa
        return text, ('split-exception', oracles.crash_site(e), repr(e)[:120])
    if got != exp or n_parse != len(exp):
        lab = _label(real, events, info)
        kind = 'trace-swallows-following' if len(got) < len(exp) else ('trace-splits-early' if len(got) > len(exp) else 'trace-pieces-differ')
        return text, (kind, lab, f'split() gave {len(got)} pieces {got!r:.300}, reference {len(exp)} pieces')
    return text, None


def run(tier, seed):
    import sqlparse
    D = 3 if tier == 'quick' else 4
    ref = sm.Ref(D)
    real = sm.Real()
    res = sm.explore(ref, real)
    parent = res['parent']
    viols = []
    vc = collections.Counter()
    for v in res['violations']:
        ps, ev, nxt = v['edge']
        tr = sm.trace_to(parent, ps)
        # last edge deltas
        xn, rdelta, _ = real.step(ps[1], ev)
        dd = [d for e, n, s, d in ref.enabled(ps[0]) if e == ev and n == nxt[0]][0]
        splits = [s for e, n, s, d in ref.enabled(ps[0]) if e == ev and n == nxt[0]][0]
        lab = sm.root_cause(tr, (ev, splits, dd, rdelta))
        events = [e for e, _, _, _ in tr] + [ev]
        sig = lab
        vc[(v['kind'], sig)] += 1
        viols.append({'kind': v['kind'], 'sig': sig, 'events': events, 'text': sm.render(events, 0),
                      'detail': f'at the last ";" the real splitter {"splits" if v["kind"] == "splits-inside-body" else "does not split"}; '
                                f'reference configuration {ps[0]}, real state {dict(zip(real.attrs, ps[1]))}',
                      'size': len(events)})
    # ---- conformance: replay model traces against the implementation
    comp, order, edges = ref.completion()
    # every state that was not expanded because the real level drifted away must show a wrong split decision
    # on its shortest completion; otherwise the pruning would have hidden behaviour (harness error, not a verdict)
    model_errors = []
    benign = []
    drift_ok = 0
    for ps in res['pruned']:
        events = [e for e, _, _, _ in sm.trace_to(parent, ps)] + [e for e, _ in comp[ps[0][0:4]]]
        info, _ = _ref_info(ref, events)
        lab = _label(real, events, info)
        xs = real.initial()
        wrong = False
        for ev, splits, dd in info:
            xs, _, _ = real.step(xs, ev)
            if ev == ';' and bool(xs[real.attrs.index('consume_ws')]) != splits:
                wrong = True
                break
        if wrong:
            drift_ok += 1
            vc[('level-drift', lab)] += 1
            viols.append({'kind': 'level-drift', 'sig': lab, 'events': events, 'text': sm.render(events, 0),
                          'detail': 'real level drifted from the reference depth; the shortest completion shows a wrong '
                                    'split decision', 'size': len(events)})
        else:
            benign.append(events)
    states = list(parent)
    if tier == 'quick':
        items = [(s, None) for s in states]
        styles = (0, 2, 3, 4)
    else:
        items = [(s, None) for s in states]
        styles = (0, 1, 2, 3, 4)
    items = core.rotate(items, seed)

    def work(chunk):
        import sqlparse as sp
        acc = core.Acc(bits=22)
        rl = sm.Real()
        for ps, _ in chunk:
            events = [e for e, _, _, _ in sm.trace_to(parent, ps)] + [e for e, _ in comp[ps[0]]]
            if not events:
                continue
            # a plain statement after the script makes a block that swallows what follows observable
            events = events + ['select', 'name', ';']
            for style in styles:
                text, bad = check_script(sp, rl, ref, events, style)
                acc.case(text, True, outcome='conforms' if not bad else 'differs',
                         sample={'events': events, 'text': text})
                if bad:
                    acc.violation({'kind': bad[0], 'sig': bad[1], 'detail': bad[2], 'text': text, 'events': events,
                                   'style': style, 'size': len(events)})
        return acc.dump()
    merged = core.merge(core.pmap(work, core.chunked(items, core.NPROC * 6)))
    viols += merged['viol']
    vc.update(merged['viol_count'])
    samples = [{'events': v['events'], 'text': v['text']} for v in viols[:2]] + merged['samples'][:3]
    cov = {
        'states': len(parent), 'transitions': res['transitions'],
        'traces_validated_against_impl': merged['n'],
        'samples': samples or [{'events': ['select', ';']}],
        'semicolon_edges_checked': res['semicolon_edges'], 'stack_depth_bound': D,
        'drift_pruned_states': len(res['pruned']), 'drift_pruned_with_wrong_split_on_completion': drift_ok,
        'drift_pruned_benign': {'count': len(benign), 'example': benign[0] if benign else None,
                                'argument': 'a split decision only tests level <= 0 and nesting inside one statement is bounded by the model, so a level further than 2 below the reference depth decides like one exactly 2 below'},
        'reference_configurations': len(order), 'exhaustive': not res['capped'],
        'conforming_traces': merged['outcomes'].get('conforms', 0), 'differing_traces': merged['outcomes'].get('differs', 0),
        'real_state_attributes': list(real.attrs),
        'explanation': 'BFS to fixpoint over (reference push-down configuration with stack depth <= D) x (real '
                       'StatementSplitter attribute tuple); each transition restores a real StatementSplitter to the '
                       'state and feeds the event\'s real lexer tokens through the real process(); invariant on every '
                       '";" edge: real split decision == reference. Exploration does not continue through a violating '
                       'edge. Conformance: the BFS-shortest trace to every product state, completed to a whole script by '
                       'the shortest reference completion, is rendered to SQL text and run through sqlparse.split and '
                       'parse; the pieces must be the reference\'s pieces.',
    }
    return core.Result('C17', 'model_checking', cov, violations=viols, viol_count=vc, model_errors=model_errors[:5],
                       assumptions=['the procedural grammar of DESIGN 4/C17 as written in vlib/splitmodel.py (Ref)',
                                    'conditions, headers and simple statements are abstracted to single name tokens',
                                    'expression nesting inside a simple statement bounded by one parenthesis and one CASE'])


def replay(case):
    import sqlparse
    D = 4
    ref = sm.Ref(D)
    real = sm.Real()
    out = []
    for style in (0, 1, 2, 3, 4):
        text, bad = check_script(sqlparse, real, ref, _complete(ref, case['events']), style)
        out.append(bad)
    bad = next((b for b in out if b), None)
    return {'events': case['events'], 'violation': bool(bad), 'observed': bad}


def _complete(ref, events):
    info, end = _ref_info(ref, events)
    comp, _, _ = ref.completion()
    return list(events) + [e for e, _ in comp[end]]
