"""C11 parsing is insensitive to inter-token whitespace and keyword case - E2 respellings."""
import re

from vlib import core, e2, oracles, grammar, explore

SPELL = re.compile(r'(^|\.)(ws\d+|wsk\d+\.\d+|case\d+|wstyle)$')
ACTIVE = {'der', 'lit', 'ws', 'wsk', 'case', 'wstyle'}


def _setup():
    import sqlparse
    return sqlparse, {}


def _shape_of(sqlparse, text):
    try:
        return oracles.shape(sqlparse.parse(text))
    except sqlparse.exceptions.SQLParseError:
        return 'SQLParseError'
    except Exception as e:  # noqa
        return 'crash:' + oracles.crash_site(e)


def _classify(over, diff):
    fams = sorted({SPELL.search(k).group(2).rstrip('0123456789.') for k in over if SPELL.search(k)})
    d = re.sub(r'\[\d+\]', '', diff or '')
    d = re.sub(r'^root/?', '', d)
    return '+'.join(fams) + '|' + d[-70:]


def _evaluate(b, over, seed_name, d, acc, state):
    sqlparse, cache = state
    spell = {k: v for k, v in over.items() if SPELL.search(k)}
    text = b.text()
    if not spell:
        acc.case(text, False, outcome='base')
        return
    base_over = {k: v for k, v in over.items() if k not in spell}
    si = [i for i, s in enumerate(grammar.SEEDS) if s[0] == seed_name][0]
    key = (si, tuple(sorted(base_over.items())))
    ent = cache.get(key)
    if ent is None:
        bb, _ = explore.run(lambda c: grammar.build_stmt(c, si), base_over, ACTIVE)
        base_text = bb.text()
        ent = (base_text, _shape_of(sqlparse, base_text))
        if len(cache) > 20000:
            cache.clear()
        cache[key] = ent
    base_text, base_shape = ent
    sh = _shape_of(sqlparse, text)
    acc.case(text, True, outcome='respelling', sample={'base': base_text, 'respelled': text})
    if sh != base_shape:
        diff = oracles.shape_diff(base_shape, sh) if isinstance(sh, tuple) and isinstance(base_shape, tuple) else f'{base_shape!r:.60} vs {sh!r:.60}'
        v = e2.viol('shape-differs', _classify(over, diff), f'{diff}; base={base_text!r}', text, over, seed_name, d)
        v['base'] = base_text
        acc.violation(v)


# ---- script level: statement boundaries must not depend on how the separator whitespace is spelled
PROC = ['create function f() returns int begin select 2; return 3; end',
        'create or replace procedure p() begin if a then update t set c = 1; end if; end',
        'create trigger tr before insert on t for each row begin declare x int; set x = 1; end',
        'begin select 1; end', 'declare x int']
SEP_WS = [' ', '\n', '\t', '\r\n', '  ', ' \n ', '\n\n', '']


def _script_cases(tier):
    import itertools
    short = [grammar.SEEDS.index(s) for s in grammar.SEEDS if s[0] in
             ('select-basic', 'select-case', 'insert-values', 'update-where', 'create-table', 'create-view',
              'drop', 'with-select')]
    texts = []
    for si in short:
        b, _ = explore.run(lambda c: grammar.build_stmt(c, si), {}, set())
        texts.append(b.text())
    texts += PROC
    cases = []
    n = 2 if tier == 'quick' else 3
    for combo in itertools.product(range(len(texts)), repeat=n):
        cases.append(tuple(texts[i] for i in combo))
    return cases


def _run_scripts(tier, seed):
    cases = core.rotate(_script_cases(tier), seed)

    def work(chunk):
        import sqlparse
        acc = core.Acc(bits=22)
        for stmts in chunk:
            base = None
            for w in SEP_WS:
                for final in ('', ';'):
                    text = (';' + w).join(stmts) + final
                    sh = _shape_of(sqlparse, text)
                    # whitespace leaves are dropped by shape(); an empty filler is the one spelling that is
                    # not "non-empty whitespace": it is only compared for statement count/types
                    if base is None:
                        base, base_text = {}, {}
                    key = final
                    if key not in base:
                        base[key], base_text[key] = sh, text
                        acc.case(text, False, outcome='script-base')
                        continue
                    acc.case(text, True, outcome='script-respelling', sample={'base': base_text[key], 'respelled': text})
                    if sh != base[key] and w != '':
                        diff = oracles.shape_diff(base[key], sh) if isinstance(sh, tuple) and isinstance(base[key], tuple) else 'error'
                        cnt = f'{len(base[key]) if isinstance(base[key], tuple) else "?"}->{len(sh) if isinstance(sh, tuple) else "?"} statements'
                        v = e2.viol('script-shape-differs', 'separator-whitespace|' + cnt, f'{diff}', text, {}, 'script', 1)
                        v['base'] = base_text[key]
                        acc.violation(v)
            # the batch separator keyword GO, in every letter case and whitespace spelling
            base_sh = None
            for go in ('GO', 'go', 'Go', 'gO', 'GO 2', 'go 2', 'GO  2', 'go\t2'):
                for w in ('\n', ' ', '\r\n'):
                    text = (w + go + w).join(stmts)
                    sh = _shape_of(sqlparse, text)
                    key = go.split()[-1] if len(go.split()) > 1 else ''
                    if base_sh is None or key not in base_sh:
                        base_sh = base_sh or {}
                        base_sh[key] = (sh, text)
                        acc.case(text, False, outcome='script-base')
                        continue
                    acc.case(text, True, outcome='script-respelling', sample={'base': base_sh[key][1], 'respelled': text})
                    if sh != base_sh[key][0]:
                        b0 = base_sh[key][0]
                        cnt = f'{len(b0) if isinstance(b0, tuple) else "?"}->{len(sh) if isinstance(sh, tuple) else "?"} statements'
                        v = e2.viol('script-shape-differs', 'GO-keyword-spelling|' + cnt, 'GO respelled', text, {}, 'script', 1)
                        v['base'] = base_sh[key][1]
                        acc.violation(v)
        return acc.dump()
    return core.merge(core.pmap(work, core.chunked(cases, core.NPROC * 4))), len(cases)


# ---- procedural bodies: every whitespace gap of a routine (between tokens and inside END IF / END LOOP / OR REPLACE ..)
# respelled; the statement after the routine shows whether the routine still ends where it did
PROC_BODIES = [
    'create function f() returns int begin if a then update t set c = 1; end if; return 2; end',
    'create or replace procedure p() begin while a loop set x = 1; end loop; end',
    'create procedure p() begin for r in select 1 loop x := 1; end loop; end',
    'create function f() returns int as begin case when a then x := 1; end case; return x; end',
    'create function f() returns int as declare x int; begin x := 1; return x; end',
    'create procedure p() begin if a then if b then set x = 1; end if; end if; end',
    'create procedure p() begin while a do set x = 1; end while; end',
    'create function f() returns int begin return case when a then 1 else 2 end; end',
    'begin select 1; end',
]
GAP_WS = ['\n', '\t', '\r\n', '  ', ' \n ', '\n\t', '\n    ']


def _proc_cases(tier):
    import itertools
    cases = []
    for body in PROC_BODIES:
        words = (body + '; select 1; select 2').split(' ')
        gaps = len(words) - 1
        cases.append((words, ()))
        for w in GAP_WS:                                   # the whole script in one spelling
            cases.append((words, tuple((g, w) for g in range(gaps))))
        for g in range(gaps):
            for w in GAP_WS:
                cases.append((words, ((g, w),)))
        if tier != 'quick' or True:
            for g1, g2 in itertools.combinations(range(gaps), 2):
                for w1 in GAP_WS[:4] if tier == 'quick' else GAP_WS:
                    for w2 in GAP_WS[:4] if tier == 'quick' else GAP_WS:
                        cases.append((words, ((g1, w1), (g2, w2))))
    return cases


def _proc_text(words, repl):
    r = dict(repl)
    out = [words[0]]
    for i, w in enumerate(words[1:]):
        out.append(r.get(i, ' '))
        out.append(w)
    return ''.join(out)


def _run_proc(tier, seed):
    cases = core.rotate(_proc_cases(tier), seed)

    def work(chunk):
        import sqlparse
        acc = core.Acc(bits=22)
        bases = {}
        for words, repl in chunk:
            key = tuple(words)
            if key not in bases:
                bt = ' '.join(words)
                bases[key] = (bt, _shape_of(sqlparse, bt))
            base_text, base_shape = bases[key]
            text = _proc_text(words, repl)
            if not repl:
                acc.case(text, False, outcome='proc-base')
                continue
            sh = _shape_of(sqlparse, text)
            acc.case(text, True, outcome='proc-respelling', sample={'base': base_text, 'respelled': text})
            if sh != base_shape:
                diff = oracles.shape_diff(base_shape, sh) if isinstance(sh, tuple) and isinstance(base_shape, tuple) else 'error'
                cnt = f'{len(base_shape) if isinstance(base_shape, tuple) else "?"}->{len(sh) if isinstance(sh, tuple) else "?"} statements'
                where = '+'.join(sorted({(words[g] + '_' + words[g + 1]).lower() for g, _ in repl})) if len(repl) <= 2 else 'uniform'
                v = e2.viol('script-shape-differs', f'routine-whitespace|{cnt}|{where}'[:120], f'{diff}', text, {}, 'routine', len(repl))
                v['base'] = base_text
                acc.violation(v)
        return acc.dump()
    return core.merge(core.pmap(work, core.chunked(cases, core.NPROC * 4))), len(cases)


def run(tier, seed):
    seeds = list(range(len(grammar.SEEDS)))
    bound = 2 if tier == 'quick' else 3
    costs = {'der': 1, 'lit': 1, 'ws': 1, 'wsk': 1, 'case': 1, 'wstyle': 1}
    if tier == 'quick':
        # pairs of respellings are affordable only without the derivation dimension; derivation x one respelling
        m1, i1 = e2.run(seeds, {'ws', 'wsk', 'case', 'wstyle'}, 2, _evaluate, seed, setup=_setup, bits=23)
        m2, i2 = e2.run(seeds, {'der', 'wsk', 'case', 'wstyle'}, 2, _evaluate, seed, setup=_setup, bits=23,
                        costs={'der': 1, 'wsk': 1, 'case': 1, 'wstyle': 1})
        parts = [(m1, i1, '<=2 respellings (gap whitespace, keyword-inner whitespace, keyword case, uniform style) of every seed'),
                 (m2, i2, '<=2 of {derivation alternative, keyword-inner whitespace, keyword case, uniform style}')]
    else:
        m1, i1 = e2.run(seeds, {'ws', 'wsk', 'case', 'wstyle'}, 3, _evaluate, seed, setup=_setup, bits=26)
        m2, i2 = e2.run(seeds, ACTIVE, 2, _evaluate, seed, setup=_setup, bits=26)
        m3, i3 = e2.run(seeds, {'der', 'lit', 'wstyle', 'wsk'}, 3, _evaluate, seed, setup=_setup, bits=26)
        parts = [(m1, i1, '<=3 respellings of every seed'), (m2, i2, '<=2 of all families'),
                 (m3, i3, '<=3 of {derivation, literal spelling, uniform style, keyword-inner whitespace}')]
    ms, nscripts = _run_scripts(tier, seed)
    parts.append((ms, {'scripts': nscripts, 'separator_spellings': len(SEP_WS) * 2},
                  'scripts of 2 (thorough: 3) statements from 8 plain seeds + 5 procedural statements x every '
                  'spelling of the whitespace after each semicolon'))
    mp, nproc = _run_proc(tier, seed)
    parts.append((mp, {'routine_cases': nproc, 'routines': len(PROC_BODIES), 'gap_spellings': len(GAP_WS)},
                  'routine scripts (IF/LOOP/WHILE/CASE/DECLARE bodies followed by two plain statements): every single '
                  'whitespace gap, every pair of gaps and the whole script respelled, including the gaps inside END IF, '
                  'END LOOP, END WHILE, END CASE and OR REPLACE'))
    viols, vc = [], None
    n = nd = 0
    report, samples = [], []
    for m, info, label in parts:
        viols += m['viol']
        vc = m['viol_count'] if vc is None else (vc.update(m['viol_count']) or vc)
        n += m['n']
        nd += m['distinct']
        samples += m['samples'][:2]
        info.update({'label': label, 'cases': m['n'], 'outcomes': dict(m['outcomes'])})
        report.append(info)
    cov = {
        'evaluations': n, 'distinct_nontrivial': nd,
        'rule': 'for every seed derivation (and derivations within d deviations of it) every respelling with <= d '
                'choices among: replacement of one inter-token whitespace by "  ", tab, LF, CRLF, " LF "; replacement '
                'of the whitespace inside one multi-word keyword; re-casing of one keyword (upper/title/alternating); '
                'one of 10 uniform respellings of the whole statement. Non-trivial = a case with at least one '
                'respelling (compared against its own base derivation); distinct by respelled text (hashed bitmap).',
        'samples': samples, 'exhaustive': True, 'blocks': report,
        'oracle': 'shape(respelled) == shape(base): statement count, get_type() per statement, tree of node classes and '
                  'leaf token types with whitespace leaves removed',
    }
    return core.Result('C11', 'exploration', cov, violations=viols, viol_count=vc,
                       assumptions=['verification grammar as program space', 'DESIGN 4.0 reading 10'])


def replay(case):
    import sqlparse
    a, b = _shape_of(sqlparse, case['base']), _shape_of(sqlparse, case['text'])
    return {'base': case['base'], 'text': case['text'], 'violation': a != b,
            'observed': oracles.shape_diff(a, b) if a != b and isinstance(a, tuple) and isinstance(b, tuple) else None}
