"""C06 layout formatting keeps the significant tokens - E2 (derivations x comments x layout options)."""
from vlib import core, e2, oracles, options, grammar, explore


def _setup():
    import sqlparse
    return sqlparse


def check_case(sqlparse, text, opts, sig_in=None, n_in=None):
    """None or (kind, sig, detail)."""
    if sig_in is None:
        sig_in = oracles.sig(text)
    try:
        out = sqlparse.format(text, **dict(opts))
    except sqlparse.exceptions.SQLParseError:
        return None
    except Exception as e:  # noqa   (crashes are C07's finding; here they still lose every token)
        return ('format-crash', oracles.crash_site(e), repr(e)[:160])
    sig_out = oracles.sig(out)
    if sig_out != sig_in:
        i, a, b = oracles.first_diff(sig_in, sig_out)
        cls = _classify(sig_in, sig_out, i)
        return ('tokens-changed', cls, f'token {i}: input {a!r} output {b!r}; output={out!r}')
    if n_in is None:
        n_in = len(sqlparse.split(text))
    n_out = len(sqlparse.split(out))
    if n_in != n_out:
        return ('statement-count', f'{n_in}->{n_out}', f'output={out!r}')
    return None


def _tclass(v):
    if v is None:
        return 'end'
    if v.startswith('/*') or v.startswith('--') or v.startswith('#'):
        return 'comment'
    if v[:1] in '\'"`$':
        return 'quoted:' + v[:1]
    return 'token'


def _classify(a, b, i):
    x = a[i] if i < len(a) else None
    y = b[i] if i < len(b) else None
    if x is not None and y is not None and x != y and oracles.norm_comment(x) == oracles.norm_comment(y):
        # exactly the serializer's line normalisation, applied inside a token it should not touch
        if x[:1] in "'\"" and any(v[:1] in '$`' and (v.count("'") % 2 or v.count('"') % 2) for v in a[:i]):
            # same root cause as inside $$ / back-quoted tokens: an unpaired quote in such a token in front derails the
            # serializer's quote tracking, this ordinary literal is taken for code
            return 'line-ends-normalised-inside-quoted:after-unpaired-quote-in-$-or-`-token'
        return f'line-ends-normalised-inside-{_tclass(x)}'
    if x is not None and y is not None and ''.join(x.split()) == ''.join(y.split()):
        return f'whitespace-inside-{_tclass(x)}'
    if len(b) < len(a):
        return f'dropped-or-fused:{_tclass(x)}'
    if len(b) > len(a):
        return f'added-or-split:{_tclass(x)}'
    return f'replaced:{_tclass(x)}'


def _mk_eval(optsets):
    def ev(b, over, seed_name, d, acc, sqlparse):
        text = b.text()
        sig_in = oracles.sig(text)
        n_in = len(sqlparse.split(text))
        ncm = sum(1 for v in sig_in if v.startswith(('/*', '--', '#')))
        for o in optsets:
            acc.extra['format_calls'] += 1
            bad = check_case(sqlparse, text, o, sig_in, n_in)
            if bad:
                acc.violation(e2.viol(bad[0], bad[1] + '|' + _optsig(o), bad[2], text, over, seed_name, d, o))
        acc.case(text, d > 0 or True, outcome=f'{min(ncm, 2)} comment(s)', sample={'text': text, 'seed': seed_name})
    return ev


def _optsig(o):
    """which filters are on (the root cause lives in a filter, not in its numeric sub-options)"""
    keys = [k for k in ('reindent', 'reindent_aligned', 'strip_whitespace', 'use_space_around_operators',
                        'comma_first', 'indent_columns', 'compact', 'indent_after_first', 'indent_tabs')
            if o.get(k)]
    if o.get('wrap_after'):
        keys.append('wrap_after')
    return '+'.join(keys) or 'none'


# one option set per layout filter (strip_comments and the other targeted options are C08's subject: they change
# tokens by design)
LAYOUT_SINGLE = [o for o in options.SINGLE_FILTER if set(o) <= set(k for k, _ in options.LAYOUT)][:5]


def run(tier, seed):
    seeds = list(range(len(grammar.SEEDS)))
    lay1 = options.sets_within(options.LAYOUT, 1)
    lay2 = options.sets_within(options.LAYOUT, 2)
    blocks = []
    if tier == 'quick':
        blocks.append(('<=1 of {derivation, comment-in-gap, literal spelling, uniform style} x <=1 layout option',
                       {'der', 'cm', 'lit', 'style', 'wstyle'}, 1, lay1))
        blocks.append(('seed x <=2 layout options', set(), 0, lay2))
        blocks.append(('<=1 optional-gap toggle x one-per-filter sets', {'ws0'}, 1, LAYOUT_SINGLE))
    else:
        blocks.append(('<=2 comments in gaps x one-per-filter layout sets', {'cm'}, 2, LAYOUT_SINGLE))
        blocks.append(('<=2 of {literal spelling, uniform style} x <=1 layout option', {'lit', 'style', 'wstyle'}, 2, lay1))
        blocks.append(('<=1 of {derivation, comment-in-gap, literal spelling, uniform style} x <=1 layout option',
                       {'der', 'cm', 'lit', 'style', 'wstyle'}, 1, lay1))
        blocks.append(('<=1 of {derivation, comment} x <=2 layout options', {'der', 'cm', 'style', 'lit'}, 1, lay2))
        blocks.append(('seed x full layout product (776 sets)', set(), 0, options.layout_product()))
        blocks.append(('<=2 of {optional-gap toggle, whitespace respelling} x one-per-filter sets',
                       {'ws0', 'ws'}, 2, LAYOUT_SINGLE))
    viols, vc = [], None
    n_eval = n_dist = fcalls = 0
    report, samples = [], []
    for label, active, bound, optsets in blocks:
        m, info = e2.run(seeds, active, bound, _mk_eval(optsets), seed, setup=_setup,
                         bits=25 if tier == 'thorough' else 22)
        viols += m['viol']
        vc = m['viol_count'] if vc is None else (vc.update(m['viol_count']) or vc)
        n_eval += m['extra']['format_calls']
        n_dist += m['distinct']
        fcalls += m['extra']['format_calls']
        samples += m['samples'][:2]
        info.update({'label': label, 'option_sets': len(optsets), 'scripts': m['n'],
                     'format_calls': m['extra']['format_calls'], 'outcomes': dict(m['outcomes'])})
        report.append(info)
    # ---- multi-statement scripts: the statement-count clause and cross-statement filter state
    scripts = e2.script_texts(tier)
    s_opts = lay1 + options.SINGLE_FILTER[7:9]

    def ev_script(text, acc, sqlparse):
        sig_in = oracles.sig(text)
        n_in = len(sqlparse.split(text))
        for o in s_opts:
            acc.extra['format_calls'] += 1
            bad = check_case(sqlparse, text, o, sig_in, n_in)
            if bad:
                acc.violation(e2.viol(bad[0], bad[1] + '|' + _optsig(o) + '|script', bad[2], text, {}, 'script', 1, o))
        acc.case(text, n_in >= 2, outcome=f'{min(n_in, 3)} statements', sample={'script': text})
    ms = e2.run_texts(scripts, ev_script, seed, setup=_setup)
    viols += ms['viol']
    vc.update(ms['viol_count'])
    n_eval += ms['extra']['format_calls']
    n_dist += ms['distinct']
    samples += ms['samples'][:2]
    report.append({'label': 'scripts of 2-3 seed statements x every separator filler x layout option sets',
                   'scripts': ms['n'], 'option_sets': len(s_opts), 'format_calls': ms['extra']['format_calls'],
                   'outcomes': dict(ms['outcomes'])})
    cov = {
        'evaluations': n_eval, 'distinct_nontrivial': n_dist,
        'rule': 'cases = (seed derivation of the verification grammar, <= d deviations among derivation '
                'alternatives / a comment of 8 kinds in any gap / literal and name spellings / gap toggles) '
                'x layout option sets (<= k option deviations; thorough: the full 776-set product per seed). '
                'evaluations = format() calls; distinct_nontrivial = distinct script texts (hashed bitmap, '
                'lower bound) summed over blocks; every script is non-trivial (a full statement).',
        'samples': samples, 'exhaustive': True, 'blocks': report, 'format_calls': fcalls,
        'oracle': 'sig(format(x, **o)) == sig(x) where sig re-tokenises with the real lexer, drops whitespace '
                  'tokens, collapses whitespace inside multi-word keywords and normalises comments by the '
                  "serializer's stated rule (line-end style, blanks before a line end); strings, quoted names "
                  'and dollar bodies byte-for-byte; len(split(out)) == len(split(x))',
    }
    return core.Result('C06', 'exploration', cov, violations=viols, viol_count=vc,
                       assumptions=['the verification grammar of DESIGN 3 (vlib/grammar.py) is the program space',
                                    'the real lexer is the judge of token boundaries (fusing/splitting shows '
                                    'because the output is re-lexed)'])


def replay(case):
    import sqlparse
    bad = check_case(sqlparse, case['text'], case.get('opts') or {})
    return {'text': case['text'], 'opts': case.get('opts'), 'violation': bool(bad), 'observed': bad}
