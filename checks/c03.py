"""C03 grouping is purely structural, tree well-formed, navigation helpers agree - E1."""
from vlib import core, e1, oracles
from checks import _e1parse


def _setup():
    import sqlparse
    return sqlparse


def _case(sqlparse, text, nav=True):
    stmts = sqlparse.parse(text)
    flat = oracles.flat_statements(text)
    return stmts, oracles.check_c03(text, stmts, flat, nav=nav)


def _evaluate(text, frags, space, acc, sqlparse):
    try:
        # the deep tiny-alphabet space checks the tree invariants only (the navigation helpers are exercised by
        # all other spaces; 7-fragment strings x every offset would dominate the budget)
        stmts, bad = _case(sqlparse, text, nav=not space.startswith('ASG'))
    except sqlparse.exceptions.SQLParseError:
        acc.case(text, False, outcome='SQLParseError')
        return
    except Exception as e:  # noqa
        acc.case(text, False, outcome='exception')
        acc.violation(e1.viol('parse-exception', oracles.crash_site(e), repr(e)[:200], text, frags, space))
        return
    acc.case(text, oracles.has_group(stmts), outcome=f'{min(len(stmts), 3)} statement(s)', sample=text)
    if bad:
        acc.violation(e1.viol(bad[0], str(bad[1]), bad[2], text, frags, space))


def trailing_comment_cases():
    """full product: a nested group x a comment directly behind it x what follows x what stands in front (the passes
    that move comments into the group in front re-parent tokens and must keep every ancestor consistent)"""
    import itertools
    groups = ['a=b', 'a+b', 'a b', 'f(x)', 'a.b', 'a::int', 'x[1]', 'case when a then b end', '(a)', 'a as b', 'a = f(b.c)',
              "date '2020-01-01'", 'a, b', 'a=b+c', 'f(x) over (order by a)', 'a:=1', 'a in (1, 2)', 'a desc', 'begin a end']
    trail = ['/*c*/', ' /*c*/', '--c\n', ' --c\n', '/*c*//*d*/', ' /*+h*/']
    follow = ['', ';', ' x', ', y', ' from t', ')']
    prefix = ['', 'select ', '(', 'select a, ', 'where ']
    return [(p, g, t, f) for p, g, t, f in itertools.product(prefix, groups, trail, follow)]


def run(tier, seed):
    sp = _e1parse.parse_spaces(tier, focus=() if tier == 'quick' else ('D1', 'D2'), light=True)
    from checks import c09
    merged, sizes = e1.run(sp, _evaluate, seed, bits=27 if tier == 'thorough' else 23, setup=_setup,
                           extra_cases=[('TRAILING-COMMENT product', trailing_comment_cases(), ''),
                                        ('ATTACH product (C09)', c09.attach_cases(), '')])
    cov = {
        'evaluations': merged['n'], 'distinct_nontrivial': merged['distinct'],
        'rule': 'same string spaces as C02 (U, D1..D7, LEX; raw and blank-joined). Non-trivial = at '
                'least one group node; distinct = distinct texts (hashed bitmap, lower bound).',
        'samples': merged['samples'][:8], 'exhaustive': True, 'spaces': sizes,
        'outcomes': dict(merged['outcomes']),
        'oracle': '(a) leaves of each statement == tokens of the ungrouped splitter run (value and type; '
                  'only Operator/Wildcard may become Operator); (b) child.parent is the containing '
                  'group, groups non-empty, every object once, cached value == text; (c) token_index, '
                  'token_next/token_prev for every index and flag combination, get_token_at_offset for '
                  'EVERY offset of EVERY group, within/has_ancestor/is_child_of against the ancestor '
                  'chain of an explicit walk',
    }
    return core.Result('C03', 'exploration', cov, violations=merged['viol'], viol_count=merged['viol_count'],
                       assumptions=['inputs longer than the fragment bound only by locality of the passes'])


def replay(case):
    import sqlparse
    try:
        _, bad = _case(sqlparse, case['text'])
    except sqlparse.exceptions.SQLParseError:
        bad = None
    except Exception as e:  # noqa
        bad = ('parse-exception', oracles.crash_site(e), repr(e))
    return {'text': case['text'], 'violation': bool(bad), 'observed': bad}
