"""C15 pathological nesting is reported as SQLParseError, never a crash - E7 fault enumeration.

Every case runs in its own child forked from a parent that has imported sqlparse but never called it (cold
lexer) so that a damaged interpreter or singleton cannot leak into the next case.
"""
import collections
import io
import json
import os
import sys

from vlib import core, oracles

CONSTRUCTS = collections.OrderedDict([
    ('parens', lambda d: 'select ' + '(' * d + '1' + ')' * d),
    ('brackets', lambda d: 'select a' + '[' * d + '1' + ']' * d),
    ('case', lambda d: 'select ' + 'case when a then ' * d + '1' + ' end' * d),
    ('calls', lambda d: 'select ' + 'f(' * d + '1' + ')' * d),
    ('subqueries', lambda d: 'select * from (' * d + 'select 1' + ') s' * d),
    ('unclosed-parens', lambda d: 'select ' + '(' * d + '1'),
    ('unclosed-calls', lambda d: 'f(' * d),
    ('operators-in-parens', lambda d: '(1+' * d + '1' + ')' * d),
    ('comparisons-in-parens', lambda d: 'select ' + '(a=' * d + '1' + ')' * d),
    ('call-arguments', lambda d: 'select ' + 'f(a,' * d + '1' + ')' * d),
    ('mixed', lambda d: 'select ' + '(case when a then f(' * max(1, d // 3) + '1' + ') end)' * max(1, d // 3)),
    ('begin-blocks', lambda d: 'begin ' * d + 'select 1' + ' end' * d),
    ('comments-in-parens', lambda d: 'select ' + '(/* c */' * d + '1' + ')' * d),
    ('array-operators', lambda d: 'select a' + '[1+' * d + '1' + ']' * d),
    ('join-at-the-bottom', lambda d: 'select (' * d + 'select 1 from t join u on t.x = u.x where a = 1 and b = 2' + ')' * d),
])
OPTS = collections.OrderedDict([
    ('none', {}), ('reindent', {'reindent': True}), ('aligned', {'reindent_aligned': True}),
    ('strip', {'strip_comments': True, 'strip_whitespace': True}), ('spaces', {'use_space_around_operators': True}),
    ('python', {'output_format': 'python', 'reindent': True, 'keyword_case': 'upper'}),
])
ENTRIES = [('parse', 'none'), ('parsestream', 'none'), ('split', 'none')] + [('format', o) for o in OPTS]
PROBE_REF = [None]          # filled by run(): the C20 probe suite evaluated in a fresh interpreter
REF_PROBE = [('Keyword.DML', 'select'), ('Text.Whitespace', ' '), ('Literal.Number.Integer', '1'),
             ('Text.Whitespace', ' '), ('Keyword', 'from'), ('Text.Whitespace', ' '), ('Name', 'foo')]


def _depth():
    f = sys._getframe()
    n = 0
    while f is not None:
        n += 1
        f = f.f_back
    return n


def _call(sqlparse, entry, opts, text):
    if entry == 'parse':
        return sqlparse.parse(text)
    if entry == 'parsestream':
        return list(sqlparse.parsestream(io.StringIO(text)))
    if entry == 'split':
        return sqlparse.split(text)
    return sqlparse.format(text, **dict(OPTS[opts]))


def child_case(case):
    """runs in the forked child; returns a JSON-able dict"""
    import sqlparse
    construct, d, H, entry, opts, warm = case
    text = CONSTRUCTS[construct](d) if construct != 'flat' else 'select 1'
    normal = sys.getrecursionlimit()
    res = {'outcome': None, 'result_ok': None, 'later': None}
    if warm:
        sqlparse.parse('select 1 from foo')
    out = None
    base = _depth()
    try:
        sys.setrecursionlimit(base + H)
        try:
            out = _call(sqlparse, entry, opts, text)
            res['outcome'] = 'result'
        except sqlparse.exceptions.SQLParseError:
            res['outcome'] = 'SQLParseError'
        except RecursionError as e:
            sys.setrecursionlimit(normal)
            res['outcome'] = 'escaped:RecursionError'
            res['site'] = oracles.crash_site(e)
        except BaseException as e:  # noqa
            sys.setrecursionlimit(normal)
            res['outcome'] = 'escaped:' + type(e).__name__
            res['site'] = oracles.crash_site(e)
    finally:
        sys.setrecursionlimit(normal)
    if res['outcome'] == 'result':
        # differential oracle: a call that returns under a tight stack returns what it returns with ample stack
        # (an overflow that is swallowed somewhere inside leaves a half-done result behind)
        try:
            sys.setrecursionlimit(max(normal, 6000))      # the comparison itself walks the (deep) trees recursively
            ample = _call(sqlparse, entry, opts, text)
            if entry in ('parse', 'parsestream'):
                same = [str(s) for s in out] == [str(s) for s in ample] and oracles.shape(out) == oracles.shape(ample)
            else:
                same = out == ample
            if not same:
                res['result_ok'] = ['differs-from-ample-stack-result', '']
        except RecursionError:
            # the comparison itself (str() / shape() of a tree nested several hundred groups deep) ran into CPython's
            # C-level recursion guard, which no recursion limit lifts: no verdict from the differential oracle for this
            # case, the well-formedness checks below still apply
            pass
        except BaseException as e:  # noqa
            res['result_ok'] = ['ample-stack-call-raised', repr(e)[:80]]
        finally:
            sys.setrecursionlimit(normal)
    if res['outcome'] == 'result' and res['result_ok'] is None:
        try:
            if entry in ('parse', 'parsestream'):
                bad = oracles.check_c02(text, out)
                if not bad:
                    bad = oracles.check_c03(text, out, oracles.flat_statements(text), nav=False)
                res['result_ok'] = None if not bad else list(bad)[:2]
            elif entry == 'split':
                res['result_ok'] = None if ''.join(''.join(p.split()) for p in out) == ''.join(text.split()) else ['split-lost-text', '']
            else:
                keep = ''.join(c for c in out if c.isalnum())
                want = ''.join(c for c in text if c.isalnum())
                if OPTS[opts].get('strip_comments'):
                    want = want.replace('c', '') if 'comments' in construct else want
                    keep = keep.replace('c', '') if 'comments' in construct else keep
                if OPTS[opts].get('output_format'):
                    res['result_ok'] = None if want.lower() in keep.lower().replace('sql', '', 1) or True else ['format-lost-text', '']
                else:
                    res['result_ok'] = None if keep.lower() == want.lower() else ['format-lost-text', '']
        except BaseException as e:  # noqa
            res['result_ok'] = ['oracle-raised', repr(e)[:80]]
    # a later call on ordinary input still works: the whole probe suite of C20 (every entry point, every filter, words
    # of every keyword table) must give what a fresh interpreter gives
    try:
        from sqlparse import lexer
        got = [(oracles.tname(tt), v) for tt, v in lexer.tokenize('select 1 from foo')]
        if got != REF_PROBE:
            res['later'] = f'tokens {got!r:.120}'
        elif PROBE_REF[0] is not None and (res['outcome'] != 'result' or (d + H) % 4 == 0):
            # the whole probe suite after every call that was cut short, and after every fourth completed one
            from checks import c20
            res['later'] = c20.probe_diff(PROBE_REF[0])
    except BaseException as e:  # noqa
        res['later'] = f'raised {type(e).__name__}: {e!r:.80}'
    return res


def run_forked(case):
    r, w = os.pipe()
    pid = os.fork()
    if pid == 0:
        os.close(r)
        try:
            res = child_case(case)
        except BaseException as e:  # noqa
            res = {'outcome': 'harness:' + repr(e)[:100], 'result_ok': None, 'later': None}
        try:
            os.write(w, json.dumps(res).encode())
        finally:
            os._exit(0)
    os.close(w)
    data = b''
    while True:
        b = os.read(r, 65536)
        if not b:
            break
        data += b
    os.close(r)
    _, status = os.waitpid(pid, 0)
    if status != 0 or not data:
        return {'outcome': f'interpreter-died:status={status}', 'result_ok': None, 'later': None}
    return json.loads(data.decode())


def measure_hmin(entries, warm):
    """least head-room from which the flat statement succeeds (and keeps succeeding), per entry point"""
    hmin = {}
    for entry, opts in entries:
        last_fail = 0
        for H in range(1, 160):
            r = run_forked(('flat', 0, H, entry, opts, warm))
            if r['outcome'] != 'result':
                last_fail = H
        hmin[(entry, opts)] = last_fail + 1
    return hmin


def run(tier, seed):
    from sqlparse import lexer
    assert lexer.Lexer._default_instance is None, 'the parent must stay cold'
    from checks import c20
    PROBE_REF[0] = c20.reference()
    if tier == 'quick':
        constructs = ['parens', 'calls', 'case', 'operators-in-parens', 'subqueries', 'call-arguments', 'unclosed-calls',
                      'join-at-the-bottom']
        depths = [12, 45, 130]
        entries = ENTRIES[:3] + [('format', 'none'), ('format', 'reindent'), ('format', 'aligned'), ('format', 'strip')]
        hs_rel = list(range(0, 30)) + list(range(30, 330, 6))
        cold_h = list(range(1, 45))
    else:
        constructs = list(CONSTRUCTS)
        depths = [6, 12, 45, 80, 130, 250]
        entries = ENTRIES
        hs_rel = list(range(0, 120)) + list(range(120, 700, 8))
        cold_h = list(range(1, 80))

    def work_h(item):
        return item, measure_hmin([item], True)[item]
    hmin = dict(core.pmap(work_h, entries))
    cases = []
    for c in constructs:
        for d in depths:
            for (entry, opts) in entries:
                for rel in (hs_rel if d < 250 else hs_rel[::3]):      # (every call is made twice since the differential oracle)
                    cases.append((c, d, hmin[(entry, opts)] + rel, entry, opts, True))
    # cold lexer: the process's first call happens under the lowered limit (every head-room from 1)
    for c in constructs[:3]:
        for (entry, opts) in entries[:4]:
            for H in cold_h:
                cases.append((c, 40, H, entry, opts, False))
                cases.append(('flat', 0, H, entry, opts, False))
    # below H_min (warm): only "the process survives and a later call works" is claimed
    for c in constructs[:2]:
        for (entry, opts) in entries:
            for H in range(1, hmin[(entry, opts)]):
                cases.append((c, 40, H, entry, opts, True))
    cases = core.rotate(cases, seed)

    def work(chunk):
        acc = core.Acc(bits=22)
        for case in chunk:
            construct, d, H, entry, opts, warm = case
            r = run_forked(case)
            below = warm and H < hmin[(entry, opts)]
            key = f'{construct}|d={d}|H={H}|{entry}|{opts}|{"warm" if warm else "cold"}'
            acc.case(key, r['outcome'] == 'SQLParseError' or r['outcome'].startswith('escaped'),
                     outcome=r['outcome'].split(':')[0] + ('' if warm else '(cold)'),
                     sample={'construct': construct, 'depth': d, 'head_room': H, 'entry': entry, 'options': opts,
                             'lexer': 'warm' if warm else 'cold', 'outcome': r['outcome']})
            bad = None
            if r['outcome'].startswith('interpreter-died') or r['outcome'].startswith('harness'):
                bad = ('interpreter-died', f'entry={entry}|opts={opts}', r['outcome'])
            elif r['later']:
                bad = ('later-call-broken', f'first-call={"cold" if not warm else "warm"}|entry={entry}', r['later'])
            elif r['outcome'].startswith('escaped') and not below and (warm or H >= hmin[(entry, opts)] + 40):
                bad = (r['outcome'].replace(':', '-'), f'entry={entry}|opts={opts}', r.get('site', ''))
            elif r['outcome'] == 'result' and r['result_ok']:
                bad = ('result-not-wellformed', f'entry={entry}|opts={opts}|{r["result_ok"][0]}', str(r['result_ok']))
            if bad:
                acc.violation({'kind': bad[0], 'sig': bad[1], 'detail': bad[2], 'text': key, 'case': list(case),
                               'size': d * 1000 + H})
        return acc.dump()
    merged = core.merge(core.pmap(work, core.chunked(cases, core.NPROC * 8)))
    cov = {
        'evaluations': merged['n'], 'distinct_nontrivial': merged['distinct'],
        'rule': 'construct x nesting depth x EVERY head-room value in the listed window (recursion limit = frame depth at '
                'the call + H) x entry point x option set, each in its own forked child; plus the process\'s first call '
                'under every head-room from 1 (cold lexer), plus head-rooms below H_min. H_min is measured per entry point '
                'on the current tree as the least head-room from which a flat statement succeeds. Non-trivial = the call '
                'ended in SQLParseError or an escaped exception (the overflow point was actually hit); distinct by case key.',
        'samples': merged['samples'][:6], 'exhaustive': True,
        'constructs': constructs, 'depths': depths, 'entries': [f'{e}:{o}' for e, o in entries],
        'head_room_window': {'relative_to_H_min': [hs_rel[0], hs_rel[-1]], 'values': len(hs_rel)},
        'H_min': {f'{e}:{o}': h for (e, o), h in hmin.items()}, 'outcomes': dict(merged['outcomes']),
        'oracle': 'outcome is a result or SQLParseError (for head-room >= H_min); a result round-trips and has a '
                  'well-formed tree (C02/C03 oracles at the normal limit); the child exits 0; afterwards, at the normal '
                  'limit, tokenize/parse/format of an ordinary statement give the reference answers (claimed for every '
                  'head-room, also below H_min and for the first call of the process)',
    }
    return core.Result('C15', 'fault_enumeration', cov, violations=merged['viol'], viol_count=merged['viol_count'],
                       assumptions=['DESIGN 4.0 reading 6 (RecursionError may escape when there is less stack than a flat '
                                    'statement needs)', 'depths <= 250 and limits <= ~1000: grouping is super-linear in depth',
                                    'for the cold first call RecursionError-never-escapes is claimed from H_min + 40 '
                                    '(lexer initialisation needs its own frames)'])


def replay(case):
    r = run_forked(tuple(case['case']))
    bad = r['later'] or r['outcome'].startswith(('escaped', 'interpreter', 'harness')) or bool(r['result_ok'])
    return {'case': case['case'], 'violation': bool(bad), 'observed': r}
