#!/venv/bin/python
import json,sys,glob
for f in sorted(glob.glob(f'/verif/replays/{sys.argv[1]}/*.json')):
    d=json.load(open(f)); print(d['kind'],'|',d['sig'],'|',repr(d.get('text'))[:70],'|',str(d.get('detail'))[:int(sys.argv[2]) if len(sys.argv)>2 else 150], '|', d.get('opts',''))
