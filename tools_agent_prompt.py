#!/venv/bin/python
"""Prints the prompt given to an independent sub-agent for one property (nothing from /verif is shared)."""
import json
import sys

pid = sys.argv[1]
n = sys.argv[2] if len(sys.argv) > 2 else '2'
avoid = sys.argv[3:]          # one-line descriptions of changes other people already produced
for line in open('/verif/properties.jsonl'):
    p = json.loads(line)
    if p['id'] == pid:
        break
AVOID = ""
if avoid:
    AVOID = "Other contributors have already produced the following changes for this property; do NOT repeat them or close variants of them - find different mechanisms and different code sites:\n" + "\n".join("  - " + a for a in avoid) + "\n\n"
print(f"""You are helping to evaluate a verification framework for the Python library andialbrecht/sqlparse (a non-validating SQL lexer / splitter / token-grouping engine / formatter). Your job is to play the role of a developer who introduces a subtle regression.

You have your own scratch git worktree of the library at /tmp/wt/{pid} (work ONLY there; never touch /repo; never read or list anything under /verif). Run the library from the worktree with `cd /tmp/wt/{pid} && PYTHONPATH=/tmp/wt/{pid} /venv/bin/python -B ...` and its test suite with `cd /tmp/wt/{pid} && PYTHONPATH=/tmp/wt/{pid} /venv/bin/python -B -m pytest -q -p no:cacheprovider` (about 3 seconds, 461 pass on the unchanged tree). There is no network.

The semantic property under study:

  title: {p['title']}
  statement: {p['statement']}
  quantified over: {p['quantifier']['text']}
  mechanisms in the code that are meant to make it hold: {'; '.join(m['name'] + ' (' + m.get('where', '') + ')' for m in p['anchors']['mechanism'])}

Task: produce {n} DIFFERENT, independent source changes to the library (each a separate small patch against the unchanged worktree, touching different mechanisms / code sites) such that each change

  1. BREAKS the property above (there is a concrete input / option set / call sequence for which the property's statement is false with the change and true without it),
  2. still imports fine and the ENTIRE existing test suite still passes with the change applied (run it and confirm: same pass count as without the change),
  3. is REALISTIC - the kind of slip or "optimisation"/"cleanup"/"refactor" a real contributor could make (off-by-one in index bookkeeping, a narrowed condition, a changed regex, a reordered step, a missing reset, a cached value, a changed default ...), not an obviously malicious `if input == 'xyz'` special case, and
  4. needs something SPECIFIC to manifest: an unusual input arrangement, a particular option combination, a multi-step sequence of calls, a particular interleaving, or two cooperating code sites that each look fine alone - NOT something that ordinary use would expose at once (since the existing tests must still pass, it cannot be blatant anyway). Prefer changes whose smallest failing input is short but un-obvious.

""" + AVOID + f"""Only change files under sqlparse/ (not tests/). Do not change the property, and do not add test files to the worktree.

For each change k = 1..{n} write into /tmp/wt/{pid}-out/ :
  - change{{k}}.diff : `git diff` output for that change alone against the unchanged worktree (after saving it, `git checkout -- .` to reset before doing the next change),
  - demo{{k}}.py : a small standalone program that takes the library root as sys.argv[1] (inserting it at sys.path[0]), exercises the failing input(s), and exits 0 if the property holds on them and exits 1 (printing what went wrong) if it is violated. It must exit 1 with the change applied and exit 0 on the unchanged worktree. Verify both.
  - note{{k}}.txt : 3-6 lines: what was changed, why it looks plausible, what exactly is needed for it to manifest, the smallest failing input you found, and the pytest summary line with the change applied.

Leave the worktree clean (`git checkout -- .`, no untracked files) when finished. In your final answer, summarise each change in two lines.""")
