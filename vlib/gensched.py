"""E8: exhaustive interleavings of lazily consumed streams (generators as cooperating tasks).

sqlparse hands out generators (lexer.tokenize, Lexer.get_tokens, parsestream, StatementSplitter.process,
FilterStack.run): a caller may hold several of them and advance them in any order, and may make complete
calls in between. A *task* is a factory returning a fresh iterator; a *schedule* is the sequence of task
indices whose iterator is advanced next. Generators cannot be copied, so exploration is stateless: every
schedule is executed from fresh iterators (prefix replay), depth-first over all schedules. The oracle is
the task's own output when it runs alone (its sequential reference): whatever the others do in between,
every task must yield exactly that.

count(lengths) = multinomial((l1+1) + ... + (lk+1); l1+1, ..., lk+1): every next() call including the one
that raises StopIteration is a step, because code after the last yield (clean-up, flushing) runs there.
"""
import math


def alone(factory, norm):
    out = []
    for x in factory():
        out.append(norm(x))
    return out


def n_schedules(lengths):
    tot = sum(l + 1 for l in lengths)
    r = math.factorial(tot)
    for l in lengths:
        r //= math.factorial(l + 1)
    return r


def explore(factories, norms, refs=None, max_schedules=None):
    """-> dict(schedules, steps, distinct_outcomes, violations=[(schedule, task, got, expected)], capped)
    factories[i]() -> iterator; norms[i](item) -> comparable; refs[i] = expected list (default: run alone)."""
    k = len(factories)
    if refs is None:
        refs = [alone(f, n) for f, n in zip(factories, norms)]
    stats = {'schedules': 0, 'steps': 0, 'violations': [], 'capped': False, 'outcomes': set()}

    def run(schedule_prefix):
        """execute the prefix, then continue with the lowest-numbered unfinished task; returns the full
        schedule and, per position, the set of unfinished tasks at that point"""
        its = [f() for f in factories]
        outs = [[] for _ in range(k)]
        done = [False] * k
        err = [None] * k
        sched, enabled_at = [], []
        pos = 0
        while not all(done):
            enabled = [i for i in range(k) if not done[i]]
            if pos < len(schedule_prefix):
                t = schedule_prefix[pos]
                if t not in enabled:
                    raise RuntimeError(f'replay divergence: task {t} not enabled at step {pos} of {schedule_prefix}')
            else:
                t = enabled[0]
            enabled_at.append(enabled)
            sched.append(t)
            pos += 1
            try:
                outs[t].append(norms[t](next(its[t])))
            except StopIteration:
                done[t] = True
            except Exception as e:  # noqa
                done[t] = True
                err[t] = f'{type(e).__name__}: {e!r:.80}'
            stats['steps'] += 1
        return sched, enabled_at, outs, err

    stack = [[]]
    while stack:
        prefix = stack.pop()
        if max_schedules is not None and stats['schedules'] >= max_schedules:
            stats['capped'] = True
            break
        sched, enabled_at, outs, err = run(prefix)
        stats['schedules'] += 1
        if len(stats['outcomes']) < 1000:
            stats['outcomes'].add(repr(outs))
        for i in range(k):
            if err[i] is not None or outs[i] != refs[i]:
                stats['violating_schedules'] = stats.get('violating_schedules', 0) + 1
                if len(stats['violations']) < 5:        # depth-first order: the first ones deviate latest
                    stats['violations'].append((tuple(sched), i, err[i] or outs[i], refs[i]))
        for p in range(len(prefix), len(sched)):
            for alt in enabled_at[p]:
                if alt != sched[p]:
                    stack.append(sched[:p] + [alt])
    stats['distinct_outcomes'] = len(stats.pop('outcomes'))
    return stats


def explore_checked(factories, norms, refs):
    """explore(); a replay divergence is a harness error unless the library itself carries state from one execution to
    the next, which is checked directly: a task run alone must still yield what it yielded alone at the start"""
    try:
        return explore(factories, norms, refs)
    except RuntimeError as e:
        if 'replay divergence' not in str(e):
            raise
        now = [alone(f, n) for f, n in zip(factories, norms)]
        changed = [i for i in range(len(factories)) if now[i] != refs[i]]
        if not changed:
            raise
        return {'schedules': 1, 'steps': 0, 'distinct_outcomes': 2, 'capped': False, 'violating_schedules': 1,
                'violations': [((), changed[0], now[changed[0]], refs[changed[0]])]}
