"""Task menu for E8 (vlib/gensched.py): every lazily evaluated entry point of sqlparse, on short inputs, plus
complete calls wrapped as one-step tasks."""
import io


def tasks(light=False):
    import sqlparse
    from sqlparse import lexer, formatter
    from sqlparse.engine import FilterStack, StatementSplitter
    from vlib import oracles

    def tok(t):
        return (oracles.tname(t[0]), t[1])

    def stm(s):
        return (str(s), repr(oracles.shape([s])))

    def ident(x):
        return x

    def call(fn):
        def gen():
            yield fn()
        return gen

    def fmt_stack(sql, **options):
        def make():
            stack = FilterStack()
            opts = formatter.validate_options(dict(options))
            stack = formatter.build_filter_stack(stack, opts)
            return stack.run(sql)
        return make

    menu = [
        ('tokenize(a b)', lambda: lexer.tokenize('a b'), tok),
        ("tokenize(c 'd')", lambda: lexer.tokenize("c 'd'"), tok),
        ('get_tokens(select 1)', lambda: lexer.Lexer.get_default_instance().get_tokens('select 1'), tok),
        ('parsestream(2 statements)', lambda: sqlparse.parsestream('select 1; select 2'), stm),
        ('parsestream(StringIO)', lambda: sqlparse.parsestream(io.StringIO('insert into t values (1); x')), stm),
        ('splitter.process', lambda: StatementSplitter().process(lexer.tokenize('a; b')), stm),
        ('format-stack(reindent)', fmt_stack('select a, b from t; select 2', reindent=True, keyword_case='upper'), stm),
        ('call parse', call(lambda: [stm(s) for s in sqlparse.parse('select a from b where c = 1')]), ident),
        ('call format', call(lambda: sqlparse.format('select a, b from t', reindent=True)), ident),
        ('call split', call(lambda: sqlparse.split('a; b; c')), ident),
    ]
    if light:
        menu = menu[:4] + menu[7:8]
    return menu
