"""Option spaces for format(): deviation-bounded sets and full products (DESIGN 3 / C06-C08, C10)."""
import itertools

# option -> non-default values ("deviations"). Sub-options of reindent imply reindent=True at no
# extra cost (alone they are no-ops and would waste the budget).
LAYOUT = [
    ('reindent', [True]),
    ('reindent_aligned', [True]),
    ('strip_whitespace', [True]),
    ('use_space_around_operators', [True]),
    ('indent_tabs', [True]),
    ('indent_width', [1, 4]),
    ('indent_after_first', [True]),
    ('indent_columns', [True]),
    ('wrap_after', [5, 40]),
    ('comma_first', [True]),
    ('compact', [True]),
]
TARGETED = [
    ('strip_comments', [True]),
    ('keyword_case', ['upper', 'lower', 'capitalize']),
    ('identifier_case', ['upper', 'lower', 'capitalize']),
    ('truncate_strings', [2, 5]),
]
OUTPUT = [('output_format', ['sql', 'python', 'php'])]
REINDENT_SUB = ('indent_tabs', 'indent_width', 'indent_after_first', 'wrap_after', 'comma_first', 'compact')


def _close(d):
    d = dict(d)
    if any(k in d for k in REINDENT_SUB) and not d.get('reindent_aligned'):
        d['reindent'] = True
    if d.get('indent_tabs') and d.get('reindent_aligned'):
        pass
    return d


def deviations(groups):
    out = []
    for name, vals in groups:
        for v in vals:
            out.append((name, v))
    return out


def sets_within(groups, d):
    """every option set with at most d deviations (distinct options), closed under implication.
    Deterministic order, simplest first, duplicates (after closure) removed."""
    devs = deviations(groups)
    seen, out = set(), []
    for k in range(0, d + 1):
        for combo in itertools.combinations(devs, k):
            names = [n for n, _ in combo]
            if len(set(names)) != len(names):
                continue
            o = _close(dict(combo))
            key = tuple(sorted((a, repr(b)) for a, b in o.items()))
            if key not in seen:
                seen.add(key)
                out.append(o)
    return out


def layout_product():
    """Full product of the layout options (DESIGN: 8 without reindent + 768 with)."""
    out = []
    for sw, sp in itertools.product([False, True], repeat=2):
        for al in (False, True):
            base = {}
            if sw:
                base['strip_whitespace'] = True
            if sp:
                base['use_space_around_operators'] = True
            if al:
                base['reindent_aligned'] = True
            out.append(dict(base))
            for tabs, width, first, cols, wrap, comma, compact in itertools.product(
                    [False, True], [1, 2, 4], [False, True], [False, True], [0, 5, 40],
                    [False, True], [False, True]):
                o = dict(base)
                o['reindent'] = True
                if tabs:
                    o['indent_tabs'] = True
                if width != 2:
                    o['indent_width'] = width
                if first:
                    o['indent_after_first'] = True
                if cols:
                    o['indent_columns'] = True
                if wrap:
                    o['wrap_after'] = wrap
                if comma:
                    o['comma_first'] = True
                if compact:
                    o['compact'] = True
                out.append(o)
    return out


# one option set per filter / filter mode: the cheap way to put every filter on every input
SINGLE_FILTER = [
    {'reindent': True},
    {'reindent_aligned': True},
    {'strip_whitespace': True},
    {'strip_comments': True},
    {'use_space_around_operators': True},
    {'output_format': 'python'},
    {'output_format': 'php', 'reindent': True},
    {'reindent': True, 'comma_first': True, 'indent_columns': True},
    {'reindent': True, 'wrap_after': 5, 'compact': True, 'indent_after_first': True},
    {'keyword_case': 'upper', 'identifier_case': 'capitalize', 'truncate_strings': 2},
    {'strip_comments': True, 'reindent_aligned': True, 'use_space_around_operators': True},
    {'reindent': True, 'indent_tabs': True, 'wrap_after': 40, 'strip_comments': True,
     'use_space_around_operators': True, 'output_format': 'python'},
]


def key(o):
    return ','.join(f'{k}={o[k]!r}' for k in sorted(o)) or '(none)'


# ---------------------------------------------------------------- invalid values (C07)

_BAD = ['foo', 2, -1, 0, 1.5, 'x', None, [], float('inf'), float('nan'), '', b'upper', {'a': 1}]


def _valid(name, v):
    """my own reading of the documentation: is v an acceptable value for option `name`?"""
    boolish = ('strip_comments', 'use_space_around_operators', 'strip_whitespace', 'indent_columns',
               'reindent', 'reindent_aligned', 'indent_after_first', 'indent_tabs', 'comma_first',
               'compact')
    if name in boolish:
        # the validator accepts anything equal to True/False (1, 0, 1.0 ...) - treat those as valid
        try:
            return v in [True, False]
        except Exception:  # noqa
            return False
    if name in ('keyword_case', 'identifier_case'):
        return v in (None, 'upper', 'lower', 'capitalize')
    if name == 'output_format':
        return v in (None, 'sql', 'python', 'php')
    return None   # numeric options: decided below


def invalid_cases():
    """[(option dict, why)] that the documentation makes invalid -> SQLParseError before any work."""
    out = []
    names = ['keyword_case', 'identifier_case', 'output_format', 'strip_comments',
             'use_space_around_operators', 'strip_whitespace', 'indent_columns', 'reindent',
             'reindent_aligned', 'indent_after_first', 'indent_tabs', 'comma_first', 'compact']
    for n in names:
        for v in _BAD:
            if _valid(n, v) is False:
                out.append(({n: v}, f'{n}={v!r}'))
    # numeric options: not convertible / out of range
    for v in ['foo', 'x', [], 1.5j, {'a': 1}, b'x', '', float('inf'), float('nan')]:
        out.append(({'truncate_strings': v}, f'truncate_strings={v!r}'))
        out.append(({'reindent': True, 'indent_width': v}, f'indent_width={v!r}'))
        out.append(({'reindent': True, 'wrap_after': v}, f'wrap_after={v!r}'))
    for v in [None, [], 'foo']:
        out.append(({'reindent': True, 'indent_width': v}, f'indent_width={v!r}'))
        out.append(({'reindent': True, 'wrap_after': v}, f'wrap_after={v!r}'))
    for v in [1, 0, -1, '1', 1.5, -3.2]:
        out.append(({'truncate_strings': v}, f'truncate_strings={v!r}'))
    for v in [0, -1, '0', -0.5]:
        out.append(({'reindent': True, 'indent_width': v}, f'indent_width={v!r}'))
    for v in [-1, '-2', -1.5]:
        out.append(({'reindent': True, 'wrap_after': v}, f'wrap_after={v!r}'))
    return out
