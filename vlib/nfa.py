"""E4: regex -> epsilon-NFA over a class alphabet -> path-multiplicity-preserving epsilon elimination ->
self-product exploration for exponential degree of ambiguity (EDA), plus conformance against `re`.

Look-arounds, \\b, ^, $ are epsilon and a back-reference is Sigma* : both only ADD paths, so
"no EDA in the model" implies "no EDA in the rule".
"""
import collections
import re

try:
    import re._parser as sre_parse
    import re._constants as C
    import re._compiler as sre_compile
except ImportError:  # pragma: no cover
    import sre_parse
    import sre_constants as C
    import sre_compile

FLAGS = re.IGNORECASE | re.UNICODE
MAXREP = C.MAXREPEAT


class Model:
    """Thompson construction. Edges: eps[p] = [q...] (list: parallel epsilon edges are distinct paths),
    chr[p] = [(atom_id, q)]."""

    def __init__(self, pattern, flags=FLAGS):
        self.pattern = pattern
        self.flags = flags
        self.n = 0
        self.eps = collections.defaultdict(list)
        self.chr = collections.defaultdict(list)
        self.atoms = []              # (op, av) for each char-consuming atom; None = any code point (Sigma)
        self.atom_ids = {}
        self.approx = []             # constructs modelled by over-approximation
        tree = sre_parse.parse(pattern, flags)
        self.start = self.new()
        self.accept = self.new()
        s, e = self.build(tree)
        self.eps[self.start].append(s)
        self.eps[e].append(self.accept)

    def new(self):
        self.n += 1
        return self.n - 1

    def atom(self, op, av):
        key = repr((op, av))
        if key not in self.atom_ids:
            self.atom_ids[key] = len(self.atoms)
            self.atoms.append((op, av))
        return self.atom_ids[key]

    def build(self, sp):
        """-> (start, end) of a fragment for the sequence sp"""
        s = self.new()
        cur = s
        for op, av in sp:
            a, b = self.build_item(op, av)
            self.eps[cur].append(a)
            cur = b
        return s, cur

    def build_item(self, op, av):
        if op in (C.LITERAL, C.NOT_LITERAL, C.ANY, C.IN):
            a, b = self.new(), self.new()
            self.chr[a].append((self.atom(op, av), b))
            return a, b
        if op is C.BRANCH:
            a, b = self.new(), self.new()
            for alt in av[1]:
                s, e = self.build(alt)
                self.eps[a].append(s)
                self.eps[e].append(b)
            return a, b
        if op is C.SUBPATTERN:
            return self.build(av[3])
        if op in (C.MAX_REPEAT, C.MIN_REPEAT, C.POSSESSIVE_REPEAT):
            lo, hi, item = av
            a = self.new()
            cur = a
            for _ in range(lo):
                s, e = self.build(item)
                self.eps[cur].append(s)
                cur = e
            if hi == MAXREP:
                # loop:  cur -> s ... e -> cur ; exit cur -> b
                s, e = self.build(item)
                b = self.new()
                hub = self.new()
                self.eps[cur].append(hub)
                self.eps[hub].append(s)
                self.eps[e].append(hub)
                self.eps[hub].append(b)
                return a, b
            b = self.new()
            self.eps[cur].append(b)
            for _ in range(hi - lo):
                s, e = self.build(item)
                self.eps[cur].append(s)
                self.eps[e].append(b)
                cur = e
            return a, b
        if op in (C.ASSERT, C.ASSERT_NOT, C.AT):
            self.approx.append(str(op))
            a = self.new()
            return a, a
        if op is C.GROUPREF:
            self.approx.append('GROUPREF')
            a = self.new()
            self.chr[a].append((self.atom('SIGMA', None), a))
            return a, a
        if op is C.ATOMIC_GROUP:
            return self.build(av)
        raise NotImplementedError(f'regex op {op} in {self.pattern!r}')


def atom_matcher(op, av, flags):
    if op == 'SIGMA':
        return lambda ch: True
    st = sre_parse.State()
    st.flags = flags
    st.str = ''
    sp = sre_parse.SubPattern(st)
    sp.append((op, av))
    pat = sre_compile.compile(sp, flags | re.DOTALL if op is not C.ANY else flags)
    return lambda ch: pat.fullmatch(ch) is not None


class Eliminated:
    """Epsilon-free automaton on 'consuming' states. edges[p] = list of (edge_id, atom_id, q); parallel
    entries = distinct epsilon paths. final[p] = number of distinct epsilon paths to accept (0 if none)."""

    def __init__(self, m, max_paths=200000):
        self.m = m
        self.inf = []           # epsilon cycles (infinite ambiguity)
        self.edges = {}
        self.final = {}
        self.states = []
        eid = 0
        work = [m.start]
        seen = {m.start}
        while work:
            p = work.pop()
            self.states.append(p)
            paths = self._eps_paths(p, max_paths)
            out = []
            fin = 0
            for r in paths:            # r repeated once per distinct epsilon path
                if r == m.accept:
                    fin += 1
                for atom_id, q in m.chr.get(r, ()):
                    out.append((eid, atom_id, q))
                    eid += 1
                    if q not in seen:
                        seen.add(q)
                        work.append(q)
            self.edges[p] = out
            self.final[p] = fin
        self.n_edges = eid

    def _eps_paths(self, p, max_paths):
        """multiset of states reachable from p by epsilon paths (one entry per distinct path); DFS with an
        on-path set to detect epsilon cycles."""
        m = self.m
        res = []
        stack = [(p, iter(m.eps.get(p, ())), None)]
        onpath = {p}
        res.append(p)
        while stack:
            node, it, _ = stack[-1]
            nxt = next(it, None)
            if nxt is None:
                stack.pop()
                onpath.discard(node)
                continue
            if nxt in onpath:
                self.inf.append((p, nxt))
                continue
            res.append(nxt)
            if len(res) > max_paths:
                self.inf.append((p, 'too-many-epsilon-paths'))
                return res
            onpath.add(nxt)
            stack.append((nxt, iter(m.eps.get(nxt, ())), None))
        return res


def classes_for(m, global_reps):
    """partition the global class representatives by the rule's own atoms -> one representative per rule-class,
    and for each atom the set of rule-class indices it matches."""
    matchers = [atom_matcher(op, av, m.flags) for op, av in m.atoms]
    sig = {}
    for ch in global_reps:
        key = tuple(f(ch) for f in matchers)
        sig.setdefault(key, ch)
    reps = list(sig.values())
    amatch = [frozenset(i for i, ch in enumerate(reps) if f(ch)) for f in matchers]
    return reps, amatch


def find_eda(el, amatch, nclasses):
    """Explore the self-product with a divergence bit. Returns (product_states, product_transitions, witness|None).
    witness = (state, word as class indices)."""
    # per state, per class: list of (edge_id, target)
    by_class = {}
    for p, out in el.edges.items():
        d = collections.defaultdict(list)
        for eid, atom_id, q in out:
            for c in amatch[atom_id]:
                d[c].append((eid, q))
        by_class[p] = d
    total_states = 0
    total_trans = 0
    seen_global = set()
    witnesses = []
    for q0 in el.states:
        if not any(True for _ in el.edges[q0]):
            continue
        start = (q0, q0, 0)
        parent = {start: None}
        dq = collections.deque([start])
        while dq:
            st = dq.popleft()
            p, q, dv = st
            dp, dq_ = by_class[p], by_class[q]
            for c, l1 in dp.items():
                l2 = dq_.get(c)
                if not l2:
                    continue
                for e1, t1 in l1:
                    for e2, t2 in l2:
                        if not dv and e2 < e1 and p == q:
                            continue        # symmetric pair on the diagonal
                        total_trans += 1
                        nd = 1 if (dv or e1 != e2) else 0
                        ns = (t1, t2, nd)
                        if ns == (q0, q0, 1) and not any(w[0] == q0 for w in witnesses):
                            # witness word
                            word = [c]
                            cur = st
                            while parent[cur] is not None:
                                cur, cc = parent[cur]
                                word.append(cc)
                            word.reverse()
                            witnesses.append((q0, word))
                        if ns not in parent:
                            parent[ns] = (st, c)
                            dq.append(ns)
        total_states += len(parent)
        seen_global.update(parent)
    witnesses.sort(key=lambda w: len(w[1]))
    return len(seen_global), total_trans, (witnesses[:8] or None)


def accepted_prefix_lengths(el, amatch, word_classes):
    """set of k such that the prefix of length k is accepted by the model"""
    cur = {el.m.start}
    res = set()
    if el.final.get(el.m.start):
        res.add(0)
    for i, c in enumerate(word_classes):
        nxt = set()
        for p in cur:
            for eid, atom_id, q in el.edges.get(p, ()):
                if c in amatch[atom_id]:
                    nxt.add(q)
        cur = nxt
        if not cur:
            break
        if any(el.final.get(p) for p in cur):
            res.add(i + 1)
    return res


def shortest_to(el, amatch, target):
    """shortest class word from start to target state (BFS)"""
    parent = {el.m.start: None}
    dq = collections.deque([el.m.start])
    while dq:
        p = dq.popleft()
        if p == target:
            w = []
            while parent[p] is not None:
                p, c = parent[p]
                w.append(c)
            return list(reversed(w))
        for eid, atom_id, q in el.edges.get(p, ()):
            if q not in parent and amatch[atom_id]:
                parent[q] = (p, min(amatch[atom_id]))
                dq.append(q)
    return None


def shortest_cycle(el, amatch, q0):
    parent = {}
    dq = collections.deque()
    for eid, atom_id, q in el.edges.get(q0, ()):
        if amatch[atom_id] and q not in parent:
            parent[q] = (None, min(amatch[atom_id]))
            dq.append(q)
    while dq:
        p = dq.popleft()
        if p == q0:
            w = []
            cur = p
            while cur is not None:
                prev, c = parent[cur]
                w.append(c)
                cur = prev
            return list(reversed(w))
        for eid, atom_id, q in el.edges.get(p, ()):
            if q not in parent and amatch[atom_id]:
                parent[q] = (p, min(amatch[atom_id]))
                dq.append(q)
    return None
