"""E3: product of a reference push-down recogniser of the procedural grammar with the real
StatementSplitter (C17; restricted to plain statements also C05).

Reference configuration: (mode, stack, px, cx)
  stack symbols  B begin-block, IF then-part, EL else-part, LP loop closed by END LOOP,
                 WD while..do closed by END WHILE, CS case statement (when part), CE its else part
  px, cx         open parentheses / open CASE expressions inside the current simple statement (0..1)
Every transition is (event, next configuration, splits_here, depth_delta). The reference says for
every ';' whether the statement ends there.
"""
import collections

# event -> concrete spelling (one word per event; multi-token spellings are lexed by the real lexer)
SPELL = {
    'name': 'x', 'select': 'select', '(': '(', ')': ')', ';': ';', 'create': 'create', 'create-or-replace': 'create or replace',
    'function': 'function', 'procedure': 'procedure', 'trigger': 'trigger', 'as': 'as', 'is': 'is', 'declare': 'declare',
    'begin': 'begin', 'end': 'end', 'if': 'if', 'then': 'then', 'else': 'else', 'end if': 'end if', 'while': 'while',
    'loop': 'loop', 'do': 'do', 'for': 'for', 'in': 'in', 'end loop': 'end loop', 'end while': 'end while',
    'case': 'case', 'when': 'when', 'end case': 'end case', 'hdr-for': 'for', 'returns': 'returns', 'go': 'GO',
    'mid-do': 'do', 'mid-for': 'for', 'mid-if': 'if', 'table': 'table', 'view': 'view',
}


PENDING = ('DECL', 'DECLITEM', 'IFC', 'IFC2', 'WHC', 'WHC2', 'FORV', 'FORIN', 'FORR', 'FORL', 'CSE0', 'CSW', 'CSV0', 'CST0')


INNER_WS = ['\n', '\t', '  ', '\r\n', ' \n ']
# ('x.case' is not in the list: CASE, IN, VALUES, USING, FROM, AS are typed by a dedicated rule that precedes the
# name-after-period rule, a documented quirk for reserved words used as column names)
NAME_SPELLINGS = ['r.end', 't.begin', 'x.loop2', 'y.loop', 'z.if', '"end"', 'q.declare', 'n.for', '`end`', 'w.while']


class Ref:
    def __init__(self, max_depth, plain_only=False, semicolon_in_parens=False, ddl=True,
                 mid_keywords=('mid-do', 'mid-for', 'mid-if')):
        self.D = max_depth
        self.plain_only = plain_only
        self.semi_in_parens = semicolon_in_parens
        self.ddl = ddl
        self.mid_keywords = tuple(mid_keywords)

    def initial(self):
        return ('TOP', (), 0, 0)

    def enabled(self, st):
        """[(event, next_state, splits, depth_delta)]"""
        mode, stack, px, cx = st
        out = []
        add = out.append
        if mode == 'TOP':
            add(('select', ('PLAIN', (), 0, 0), False, 0))
            add(('name', ('PLAIN', (), 0, 0), False, 0))
            # a transaction statement (BEGIN; / BEGIN WORK;) is a plain statement that starts with a block keyword
            add(('begin', ('PLAIN', (), 0, 0), False, 0))
            if not self.plain_only:
                add(('create', ('HDR0', (), 0, 0), False, 0))
                add(('create-or-replace', ('HDR0', (), 0, 0), False, 0))
        elif mode == 'PLAIN':
            self._expr_events(out, 'PLAIN', stack, px, cx)
            if px == 0 and cx == 0:
                add((';', ('TOP', (), 0, 0), True, 0))
            elif self.semi_in_parens and px > 0:
                add((';', ('PLAIN', stack, px, cx), False, 0))
            if self.semi_in_parens:
                # the GO batch separator ends a statement wherever it stands; the next statement starts afresh
                add(('go', ('TOP', (), 0, 0), True, 0))
            if self.semi_in_parens and px == 0 and not stack:
                # a stray closing parenthesis is ignored by the reference; whatever it does to the real counter
                # must not leak into the next statement (stack element 'S' remembers that one was seen, once)
                add((')', ('PLAIN', ('S',), px, cx), False, 0))
        elif mode == 'HDR0':
            for w in ('function', 'procedure', 'trigger'):
                add((w, ('HDR', (), 0, 0), False, 0))
            if self.ddl:
                add(('table', ('DDL', (), 0, 0), False, 0))
                add(('view', ('DDL', (), 0, 0), False, 0))
        elif mode == 'DDL':
            # a non-procedural CREATE TABLE / VIEW: one plain statement; block keywords may occur in it
            # (IF NOT EXISTS, substring(a FROM 1 FOR 2), CASE expressions) without opening anything
            self._expr_events(out, 'DDL', stack, px, cx)
            add(('mid-if', ('DDL', stack, px, cx), False, 0))
            add(('mid-for', ('DDL', stack, px, cx), False, 0))
            add(('as', ('DDL', stack, px, cx), False, 0))
            if px == 0 and cx == 0:
                add((';', ('TOP', (), 0, 0), True, 0))
        elif mode == 'HDR':
            add(('name', ('HDR', (), px, 0), False, 0))
            if px == 0:
                add(('(', ('HDR', (), 1, 0), False, 1))
                add(('returns', ('HDR', (), 0, 0), False, 0))
                add(('hdr-for', ('HDR', (), 0, 0), False, 0))
                add(('as', ('HDRAS', (), 0, 0), False, 0))
                add(('is', ('HDRAS', (), 0, 0), False, 0))
                add(('declare', ('DECL', (), 0, 0), False, 1))
                add(('begin', ('STMT0', ('B',), 0, 0), False, 1))
            else:
                add((')', ('HDR', (), 0, 0), False, -1))
        elif mode == 'HDRAS':
            add(('declare', ('DECL', (), 0, 0), False, 1))
            add(('begin', ('STMT0', ('B',), 0, 0), False, 1))
        elif mode == 'DECL':
            add(('name', ('DECLITEM', (), 0, 0), False, 0))
            add(('begin', ('STMT0', ('B',), 0, 0), False, 0))   # the DECLARE section already counts as the block's level
        elif mode == 'DECLITEM':
            add(('name', ('DECLITEM', (), 0, 0), False, 0))
            add((';', ('DECL', (), 0, 0), False, 0))
        elif mode == 'STMT0':
            top = stack[-1]
            add(('name', ('SIMPLE', stack, 0, 0), False, 0))
            add(('select', ('SIMPLE', stack, 0, 0), False, 0))
            add(('declare', ('SIMPLE', stack, 0, 0), False, 0))
            if len(stack) < self.D:
                add(('begin', ('STMT0', stack + ('B',), 0, 0), False, 1))
                add(('if', ('IFC', stack, 0, 0), False, 1))
                add(('while', ('WHC', stack, 0, 0), False, 1))
                add(('for', ('FORV', stack, 0, 0), False, 1))
                add(('loop', ('STMT0', stack + ('LP',), 0, 0), False, 1))
                add(('case', ('CSE0', stack, 0, 0), False, 1))
            rest = stack[:-1]
            after = ('FINAL' if not rest else 'AFTEREND', rest, 0, 0)
            if top == 'B':
                add(('end', after, False, -1))
            elif top == 'IF':
                add(('else', ('STMT0', rest + ('EL',), 0, 0), False, 0))
                add(('end if', after, False, -1))
            elif top == 'EL':
                add(('end if', after, False, -1))
            elif top == 'LP':
                add(('end loop', after, False, -1))
            elif top == 'WD':
                add(('end while', after, False, -1))
            elif top == 'CS':
                add(('when', ('CSV', stack, 0, 0), False, 0))
                add(('else', ('STMT0', rest + ('CE',), 0, 0), False, 0))
                add(('end case', after, False, -1))
            elif top == 'CE':
                add(('end case', after, False, -1))
        elif mode == 'SIMPLE':
            self._expr_events(out, 'SIMPLE', stack, px, cx)
            if self.mid_keywords and cx == 0:
                # keywords that open blocks at the start of a statement occur inside simple statements too
                # (ON CONFLICT DO NOTHING, SELECT .. FOR UPDATE, DROP TABLE IF EXISTS)
                for ev in self.mid_keywords:
                    add((ev, ('MIDK', stack, px, cx), False, 0))
        elif mode == 'MIDK':
            # ... IF EXISTS, FOR UPDATE / FOR SELECT, DO NOTHING: the keyword is followed by an ordinary word
            add(('name', ('SIMPLE', stack, px, cx), False, 0))
            add(('select', ('SIMPLE', stack, px, cx), False, 0))
            if px == 0 and cx == 0:
                add((';', ('STMT0', stack, 0, 0), False, 0))
        elif mode == 'IFC':
            add(('name', ('IFC2', stack, 0, 0), False, 0))
        elif mode == 'IFC2':
            add(('then', ('STMT0', stack + ('IF',), 0, 0), False, 0))
        elif mode == 'WHC':
            add(('name', ('WHC2', stack, 0, 0), False, 0))
        elif mode == 'WHC2':
            add(('loop', ('STMT0', stack + ('LP',), 0, 0), False, 0))
            add(('do', ('STMT0', stack + ('WD',), 0, 0), False, 0))
        elif mode == 'FORV':
            add(('name', ('FORIN', stack, 0, 0), False, 0))
        elif mode == 'FORIN':
            add(('in', ('FORR', stack, 0, 0), False, 0))
        elif mode == 'FORR':
            add(('name', ('FORL', stack, 0, 0), False, 0))
        elif mode == 'FORL':
            add(('loop', ('STMT0', stack + ('LP',), 0, 0), False, 0))
        elif mode == 'CSE0':
            add(('name', ('CSW', stack, 0, 0), False, 0))
        elif mode == 'CSW':
            add(('when', ('CSV0', stack, 0, 0), False, 0))
        elif mode == 'CSV0':
            add(('name', ('CST0', stack, 0, 0), False, 0))
        elif mode == 'CST0':
            add(('then', ('STMT0', stack + ('CS',), 0, 0), False, 0))
        elif mode == 'CSV':
            add(('name', ('CST', stack, 0, 0), False, 0))
        elif mode == 'CST':
            add(('then', ('STMT0', stack, 0, 0), False, 0))
        elif mode == 'AFTEREND':
            add((';', ('STMT0', stack, 0, 0), False, 0))
        elif mode == 'FINAL':
            add((';', ('TOP', (), 0, 0), True, 0))
        else:
            raise AssertionError(mode)
        return out

    def _expr_events(self, out, mode, stack, px, cx):
        out.append(('name', (mode, stack, px, cx), False, 0))
        if px < 1:
            out.append(('(', (mode, stack, px + 1, cx), False, 1))
        if px > 0:
            out.append((')', (mode, stack, px - 1, cx), False, -1))
        if cx < 1:
            out.append(('case', (mode, stack, px, cx + 1), False, 1))
        if cx > 0:
            out.append(('when', (mode, stack, px, cx), False, 0))
            out.append(('then', (mode, stack, px, cx), False, 0))
            out.append(('else', (mode, stack, px, cx), False, 0))
            out.append(('end', (mode, stack, px, cx - 1), False, -1))

    def accepting(self, st):
        return st[0] == 'TOP'

    def completion(self):
        """shortest event list from every reachable configuration to TOP (reverse BFS)."""
        # forward BFS to collect the graph
        init = self.initial()
        seen = {init}
        order = [init]
        edges = {}
        dq = collections.deque([init])
        while dq:
            s = dq.popleft()
            edges[s] = self.enabled(s)
            for ev, n, sp, dd in edges[s]:
                if n not in seen:
                    seen.add(n)
                    order.append(n)
                    dq.append(n)
        rev = collections.defaultdict(list)
        for s in order:
            for ev, n, sp, dd in edges[s]:
                rev[n].append((s, ev, sp))
        comp = {init: []}
        dq = collections.deque([init])
        while dq:
            n = dq.popleft()
            for s, ev, sp in rev[n]:
                if s not in comp:
                    comp[s] = [(ev, sp)] + comp[n]
                    dq.append(s)
        return comp, order, edges


class Real:
    """Steps the real StatementSplitter: state = (level, _is_create, _in_declare, _in_case, _begin_depth,
    consume_ws) plus any further instance attribute a changed implementation may add."""

    BASE = ('level', '_is_create', '_in_declare', '_in_case', '_begin_depth', 'consume_ws')

    def __init__(self):
        from sqlparse.engine.statement_splitter import StatementSplitter
        from sqlparse import sql, tokens as T, lexer
        self.cls = StatementSplitter
        self.sql, self.T, self.lexer = sql, T, lexer
        probe = StatementSplitter()
        self.attrs = tuple(k for k in self.BASE if k in probe.__dict__) + tuple(
            sorted(k for k in probe.__dict__ if k not in self.BASE and k != 'tokens'))
        self._tok_cache = {}

    def initial(self):
        sp = self.cls()
        return tuple(self._freeze(getattr(sp, a)) for a in self.attrs)

    @staticmethod
    def _freeze(v):
        if isinstance(v, list):
            return ('list', len(v))
        return v

    def tokens_of(self, event):
        t = self._tok_cache.get(event)
        if t is None:
            t = list(self.lexer.tokenize(SPELL[event])) + [(self.T.Whitespace, ' ')]
            self._tok_cache[event] = t
        return t

    def step(self, state, event):
        """-> (new state, level delta of the event, split_before_some_token)"""
        sp = self.cls()
        for a, v in zip(self.attrs, state):
            if isinstance(v, tuple) and v and v[0] == 'list':
                v = [None] * v[1]
            setattr(sp, a, v)
        sp.tokens = [self.sql.Token(self.T.Name, 'x')]
        lvl0 = sp.level
        split_before = False
        delta = 0
        for tok in self.tokens_of(event):
            before = sp.level if not (sp.consume_ws and tok[0] not in (self.T.Whitespace, self.T.Comment.Single)) else 0
            n = len(list(sp.process(iter([tok]))))
            if n >= 2:
                split_before = True
            delta += sp.level - before
            if not sp.tokens:
                sp.tokens = [self.sql.Token(self.T.Name, 'x')]
        new = tuple(self._freeze(getattr(sp, a)) for a in self.attrs)
        return new, delta, split_before


def explore(ref, real, stop_at_violation=True, max_states=2_000_000, drift=2):
    """BFS over product states. Returns dict with states, transitions, violations (with traces)."""
    init = (ref.initial(), real.initial())
    parent = {init: None}
    dq = collections.deque([init])
    transitions = 0
    viols = []
    semis = 0
    capped = False
    pruned = []
    while dq:
        ps = dq.popleft()
        rs, xs = ps
        for ev, rn, splits, dd in ref.enabled(rs):
            xn, rdelta, split_before = real.step(xs, ev)
            transitions += 1
            nxt = (rn, xn)
            bad = None
            if ev in (';', 'go'):
                semis += 1
                real_split = bool(xn[real.attrs.index('consume_ws')])
                if real_split != splits:
                    bad = 'splits-inside-body' if real_split else 'does-not-split'
            elif split_before and not _prev_semicolon_split(parent, ps, real):
                bad = 'split-without-semicolon'
            if bad:
                viols.append({'kind': bad, 'edge': (ps, ev, nxt)})
                if stop_at_violation:
                    continue
            if nxt not in parent:
                if len(parent) >= max_states:
                    capped = True
                    continue
                parent[nxt] = (ps, ev, splits, dd, rdelta)
                # a real level that has drifted more than `drift` away from the reference depth can only grow
                # further apart on longer programs (that is what makes the product infinite for a leaking
                # counter); such a state is recorded, checked by its shortest completion, and not expanded
                depth = len(rn[1]) + rn[2] + rn[3] + (1 if rn[0] in PENDING else 0)
                if abs(xn[real.attrs.index('level')] - depth) > drift or any(
                        isinstance(v, int) and not isinstance(v, bool) and abs(v) > ref.D + drift + 2 for v in xn):
                    pruned.append(nxt)
                    continue
                dq.append(nxt)
    return {'parent': parent, 'transitions': transitions, 'violations': viols, 'semicolon_edges': semis,
            'capped': capped, 'pruned': pruned}


def _prev_semicolon_split(parent, ps, real):
    return bool(ps[1][real.attrs.index('consume_ws')])


def trace_to(parent, ps):
    """[(event, ref_splits, ref_delta, real_delta)] from the initial state to ps."""
    out = []
    while parent[ps] is not None:
        prev, ev, splits, dd, rdelta = parent[ps]
        out.append((ev, splits, dd, rdelta))
        ps = prev
    out.reverse()
    return out


def root_cause(trace, last=None):
    """first event on the trace where the real level delta differs from the reference depth delta"""
    seq = list(trace) + ([last] if last else [])
    for ev, splits, dd, rdelta in seq:
        if dd != rdelta:
            return f'{ev.upper()}: real {rdelta:+d}, ref {dd:+d}'
    return 'no-delta-difference'


def render(events, style=0):
    """concretise an event list to SQL text. style 0: blanks; style 1: upper-case keywords, line breaks after ';'
    and a line comment after some of them."""
    parts = []
    for i, ev in enumerate(events):
        w = SPELL[ev]
        if style == 3 and ' ' in w:
            w = w.replace(' ', '\n')          # multi-word keywords written across a line break, no blank
        if style == 1 and ' ' in w:
            w = w.replace(' ', '\t')
        if style == 2 and ev == 'name':
            # names that end in (or are, quoted) block keywords must still be names
            w = NAME_SPELLINGS[i % len(NAME_SPELLINGS)]
        if style == 4 and ev == 'name' and i > 0:
            # conditions that start with [NOT] EXISTS, and DDL statements as simple statements of a body
            prev = events[i - 1]
            if prev in ('if', 'while'):
                w = ('exists (select 1)', 'not exists (select 1)')[i % 2]
            elif prev in ('begin', 'then', 'else', 'loop', 'do'):
                w = ('truncate table t', 'drop table t', 'alter table t add c int', 'x')[i % 4]
        if style == 1 and ev not in ('name',):
            w = w.upper()
        parts.append(w)
        if ev == ';':
            # a line comment on the same line stays with the statement it follows
            parts.append((' -- c\n' if i % 3 == 0 else '\n') if style == 1 else ' ')
        else:
            parts.append(' ' if style == 0 else ('\n' if ev in ('begin', 'then', 'loop', 'else', 'do') else ' '))
    return ''.join(parts)


def render_pieces(events_with_splits, style=0):
    """(script text, expected pieces): the script is rendered once, the pieces are its slices at the
    semicolons where the reference splits (so per-index spellings agree between text and pieces)"""
    events = [e for e, _ in events_with_splits]
    text = ''
    pieces, start = [], 0
    for i, (ev, splits) in enumerate(events_with_splits):
        text = render(events[:i + 1], style)
        if ev in (';', 'go') and splits:
            # the statement ends right after the separator token itself; whatever layout follows on the
            # same line (a same-line comment) stays with it
            pieces.append(text[start:])
            start = len(text)
    if text[start:].strip():
        pieces.append(text[start:])
    return text, [p.strip() for p in pieces if p.strip()]


def expected_pieces(events_with_splits, style=0):
    """the script text and the pieces the reference expects from split()"""
    pieces, cur = [], []
    for ev, splits in events_with_splits:
        cur.append(ev)
        if ev == ';' and splits:
            pieces.append(cur)
            cur = []
    if cur:
        pieces.append(cur)
    return pieces
