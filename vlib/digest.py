"""global_digest(): a structural hash of the library's process-wide state (E6 / C20).

Covers every global of every sqlparse.* module, every class attribute, every function's defaults /
kw-defaults / closure cells / code, the lexer singleton's instance dict (rule patterns + flags + token types,
keyword tables in order) and the lazily grown token-type tree. Two equal digests mean no difference in anything
listed here; a digest difference alone is never a violation, it only prevents merging states.
"""
import hashlib
import re
import sys
import types

_PATTERN = type(re.compile(''))


def _walk(x, h, seen, depth=0):
    t = type(x)
    if x is None or t in (bool, int, float, str, bytes, complex):
        h(repr(x))
        return
    if depth > 40:
        h('<deep>')
        return
    if t is _PATTERN:
        h(f're:{x.pattern!r}:{x.flags}')
        return
    i = id(x)
    if i in seen:
        h(f'<ref {seen[i]}>')
        return
    seen[i] = len(seen)
    tn = t.__name__
    if tn == '_TokenType':
        h('tt:' + '.'.join(x))
        # lazily created children live in the instance dict
        d = getattr(x, '__dict__', {})
        for k in sorted(d):
            if k == 'parent':
                continue
            h('.' + k)
            _walk(d[k], h, seen, depth + 1)
        return
    if t in (tuple, list):
        h(tn + '[')
        for v in x:
            _walk(v, h, seen, depth + 1)
        h(']')
        return
    if t in (set, frozenset):
        h(tn + '{' + ','.join(sorted(repr(v) for v in x)) + '}')
        return
    if t is dict or isinstance(x, dict):
        h('dict{')
        for k, v in x.items():           # order matters (keyword table order)
            h(repr(k) if not isinstance(k, (types.FunctionType, type)) else getattr(k, '__qualname__', '?'))
            _walk(v, h, seen, depth + 1)
        h('}')
        return
    if t is types.ModuleType:
        h('module:' + x.__name__)
        return
    if t in (types.FunctionType,):
        h('fn:' + x.__module__ + '.' + x.__qualname__)
        h(hashlib.md5(x.__code__.co_code).hexdigest())
        _walk(x.__defaults__, h, seen, depth + 1)
        _walk(x.__kwdefaults__, h, seen, depth + 1)
        for c in x.__closure__ or ():
            try:
                _walk(c.cell_contents, h, seen, depth + 1)
            except ValueError:
                h('<empty cell>')
        return
    if t in (types.MethodType, types.BuiltinMethodType, types.BuiltinFunctionType, types.MethodWrapperType):
        h('meth:' + getattr(x, '__name__', '?'))
        s = getattr(x, '__self__', None)
        if s is not None and not isinstance(s, types.ModuleType):
            _walk(s, h, seen, depth + 1)
        return
    if t in (classmethod, staticmethod):
        _walk(x.__func__, h, seen, depth + 1)
        return
    if t is property:
        for f in (x.fget, x.fset, x.fdel):
            _walk(f, h, seen, depth + 1)
        return
    if isinstance(x, type):
        h('class:' + x.__module__ + '.' + x.__qualname__)
        if x.__module__.startswith('sqlparse'):
            for k, v in sorted(vars(x).items()):
                if k in ('__dict__', '__weakref__', '__doc__', '__module__', '__qualname__', '__slots__') or \
                        type(v).__name__ in ('member_descriptor', 'getset_descriptor', 'wrapper_descriptor'):
                    continue
                h('.' + k)
                _walk(v, h, seen, depth + 1)
        return
    lk = getattr(x, 'locked', None)
    if tn in ('lock', 'RLock') or (callable(lk) and tn.lower().endswith('lock')):
        try:
            h('lock:' + str(bool(x.locked())))
        except Exception:  # noqa
            h('lock')
        return
    mod = getattr(t, '__module__', '')
    if mod.startswith('sqlparse') or mod.startswith('vlib'):
        h('obj:' + mod + '.' + t.__qualname__)
        d = getattr(x, '__dict__', None)
        if d is not None:
            for k in sorted(d):
                h('.' + k)
                _walk(d[k], h, seen, depth + 1)
        for k in getattr(t, '__slots__', ()) if isinstance(getattr(t, '__slots__', ()), (tuple, list)) else ():
            if hasattr(x, k):
                h('.' + k)
                _walk(getattr(x, k), h, seen, depth + 1)
        return
    h('other:' + mod + '.' + tn)


def global_digest(extra=None):
    m = hashlib.sha256()

    def h(s):
        m.update(s.encode('utf-8', 'backslashreplace'))
        m.update(b'\x00')
    seen = {}
    names = sorted(n for n in sys.modules if n == 'sqlparse' or n.startswith('sqlparse.'))
    for n in names:
        mod = sys.modules[n]
        if mod is None:
            continue
        h('MODULE ' + n)
        for k, v in sorted(vars(mod).items()):
            if k.startswith('__') and k not in ('__all__', '__version__'):
                continue
            h('GLOBAL ' + k)
            _walk(v, h, seen)
    h('RECLIMIT %d' % sys.getrecursionlimit())
    if extra:
        h(repr(extra))
    return m.hexdigest()[:20]
