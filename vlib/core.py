"""Shared machinery: loading the tree under test, fork pool, evidence, findings, CLI glue.

Everything here is deterministic: no set/dict iteration decides an order, VERIF_SEED only
rotates traversal order and picks the samples shown in the evidence.
"""
import collections
import hashlib
import json
import os
import random
import subprocess
import sys
import time
import traceback
import zlib

VERIF = os.path.dirname(os.path.dirname(os.path.abspath(__file__)))
REPO = os.environ.get('VERIF_REPO', '/repo')
OUT = os.environ.get('VERIF_OUT', VERIF)   # evidence/replays of mutant runs go elsewhere
NPROC = int(os.environ.get('VERIF_PROCS', '0')) or (os.cpu_count() or 4)

sys.dont_write_bytecode = True
if sys.path[0] != REPO:
    sys.path.insert(0, REPO)


def load():
    """Import sqlparse from the tree under test (VERIF_REPO, default /repo)."""
    import sqlparse
    here = os.path.realpath(sqlparse.__file__)
    if not here.startswith(os.path.realpath(REPO) + os.sep):
        raise SystemExit(f'sqlparse imported from {here}, expected under {REPO}')
    return sqlparse


def tree_id():
    """git HEAD plus a hash of the python sources actually imported."""
    try:
        head = subprocess.run(['git', '-C', REPO, 'rev-parse', 'HEAD'], capture_output=True,
                              text=True, timeout=20).stdout.strip()
    except Exception:
        head = ''
    h = hashlib.sha256()
    root = os.path.join(REPO, 'sqlparse')
    for dp, dn, fn in sorted(os.walk(root)):
        dn.sort()
        for f in sorted(fn):
            if f.endswith('.py'):
                p = os.path.join(dp, f)
                h.update(p[len(root):].encode())
                with open(p, 'rb') as fh:
                    h.update(fh.read())
    return {'repo': REPO, 'head': head or 'n/a', 'source_sha256': h.hexdigest()[:16]}


# --------------------------------------------------------------------------- pool

_TASK = None
_ITEMS = None


def _call(i):
    try:
        return i, _TASK(_ITEMS[i]), None
    except BaseException:  # a harness bug must be loud, not a silent missing partition
        return i, None, traceback.format_exc()


def pmap(fn, items, procs=None, chunksize=1):
    """Run fn over items in forked workers; results in item order. A worker exception is fatal."""
    global _TASK, _ITEMS
    items = list(items)
    procs = min(procs or NPROC, max(1, len(items)))
    _TASK, _ITEMS = fn, items
    out = [None] * len(items)
    if procs == 1:
        for i in range(len(items)):
            _, r, err = _call(i)
            if err:
                raise RuntimeError('worker failed:\n' + err)
            out[i] = r
        return out
    import multiprocessing as mp
    ctx = mp.get_context('fork')
    with ctx.Pool(procs) as pool:
        for i, r, err in pool.imap_unordered(_call, range(len(items)), chunksize):
            if err:
                pool.terminate()
                raise RuntimeError('worker failed:\n' + err)
            out[i] = r
    return out


def chunked(seq, n):
    seq = list(seq)
    k = max(1, (len(seq) + n - 1) // n)
    return [seq[i:i + k] for i in range(0, len(seq), k)]


def rotate(items, seed):
    """Seed-dependent traversal order over the same set."""
    items = list(items)
    random.Random(seed).shuffle(items)
    return items


# --------------------------------------------------------------------------- distinct counting

class Bitmap:
    """Lower bound on the number of distinct keys: bits set in a hashed bitmap (collisions only
    ever under-count, so the figure reported as 'distinct' is conservative)."""

    def __init__(self, bits=24):
        self.bits = bits
        self.mask = (1 << bits) - 1
        self.buf = bytearray(1 << (bits - 3))

    def add(self, key):
        if not isinstance(key, str):
            key = repr(key)
        h = zlib.crc32(key.encode('utf-8', 'surrogatepass')) & self.mask
        self.buf[h >> 3] |= 1 << (h & 7)

    def dump(self):
        return self.bits, bytes(self.buf)

    @staticmethod
    def merge_count(dumps):
        acc = 0
        for bits, b in dumps:
            acc |= int.from_bytes(b, 'little')
        return acc.bit_count()


class Acc:
    """Per-worker accumulator with a deterministic merge."""

    def __init__(self, bits=22, max_viol=40, max_samples=6):
        self.n = 0
        self.nontrivial = 0
        self.bm = Bitmap(bits)
        self.outcomes = collections.Counter()
        self.viol = []
        self.viol_count = collections.Counter()
        self.samples = []
        self.max_viol = max_viol
        self.max_samples = max_samples
        self.extra = collections.Counter()

    def case(self, key, nontrivial, outcome=None, sample=None):
        self.n += 1
        if nontrivial:
            self.nontrivial += 1
            self.bm.add(key)
            if sample is not None and len(self.samples) < self.max_samples:
                self.samples.append(sample)
        if outcome is not None:
            self.outcomes[outcome] += 1

    def violation(self, v):
        sig = (v.get('kind'), v.get('sig'))
        self.viol_count[sig] += 1
        # keep the smallest few per signature
        same = [x for x in self.viol if (x.get('kind'), x.get('sig')) == sig]
        if len(same) < 3:
            self.viol.append(v)
        else:
            worst = max(same, key=lambda x: x.get('size', 0))
            if v.get('size', 0) < worst.get('size', 0):
                self.viol.remove(worst)
                self.viol.append(v)

    def dump(self):
        return {'n': self.n, 'nontrivial': self.nontrivial, 'bm': self.bm.dump(),
                'outcomes': self.outcomes, 'viol': self.viol, 'viol_count': self.viol_count,
                'samples': self.samples, 'extra': self.extra}


def merge(dumps):
    out = {'n': 0, 'nontrivial': 0, 'outcomes': collections.Counter(), 'viol': [],
           'viol_count': collections.Counter(), 'samples': [], 'extra': collections.Counter()}
    bms = []
    for d in dumps:
        if d is None:
            continue
        out['n'] += d['n']
        out['nontrivial'] += d['nontrivial']
        out['outcomes'].update(d['outcomes'])
        out['viol'].extend(d['viol'])
        out['viol_count'].update(d['viol_count'])
        out['samples'].extend(d['samples'])
        out['extra'].update(d['extra'])
        bms.append(d['bm'])
    out['distinct'] = Bitmap.merge_count(bms) if bms else 0
    return out


# --------------------------------------------------------------------------- findings

def load_findings():
    p = os.path.join(VERIF, 'known_findings.json')
    if not os.path.exists(p):
        return []
    with open(p) as fh:
        data = json.load(fh)
    return [f for f in data.get('findings', []) if 'id' in f]


def _match_value(pat, val):
    if isinstance(pat, dict):
        if 'regex' in pat:
            import re
            return isinstance(val, str) and re.fullmatch(pat['regex'], val, re.S) is not None
        if 'in' in pat:
            return val in pat['in']
        return False
    return pat == val


def finding_for(kind, sig, findings, prop):
    """Classification is a function of (property, kind, sig) only, so that every case a worker
    dropped under a signature it had already recorded is classified like the recorded one. The
    signature therefore has to carry everything that identifies a finding (call site, coordinate
    cube, root-cause transition label ...)."""
    for f in findings:
        if f.get('property') != prop or f.get('kind') != kind:
            continue
        if _match_value(f.get('sig'), sig):
            return f
    return None


# --------------------------------------------------------------------------- results / evidence

class Result:
    def __init__(self, prop, level, coverage, violations=(), assumptions=(), viol_count=None,
                 model_errors=()):
        self.prop = prop
        self.level = level
        self.coverage = coverage
        self.violations = list(violations)
        self.assumptions = list(assumptions)
        self.viol_count = viol_count or collections.Counter()
        self.model_errors = list(model_errors)


def jsonable(x):
    if isinstance(x, dict):
        return {str(k): jsonable(v) for k, v in x.items()}
    if isinstance(x, (list, tuple)):
        return [jsonable(v) for v in x]
    if isinstance(x, (str, int, float, bool)) or x is None:
        if isinstance(x, str):
            return x.encode('utf-8', 'backslashreplace').decode('utf-8')
        return x
    if isinstance(x, bytes):
        return {'bytes': x.hex()}
    return repr(x)


def write_json(path, obj):
    os.makedirs(os.path.dirname(path), exist_ok=True)
    tmp = path + '.tmp%d' % os.getpid()
    with open(tmp, 'w') as fh:
        json.dump(jsonable(obj), fh, indent=1, sort_keys=True, ensure_ascii=True)
        fh.write('\n')
    os.replace(tmp, path)


def validate_evidence(path):
    schema = '/root/.vp/EVIDENCE.schema.json'
    if not os.path.exists(schema):
        return None
    code = ("import json,sys,jsonschema;"
            "jsonschema.validate(json.load(open(sys.argv[1])),json.load(open(sys.argv[2])))")
    try:
        r = subprocess.run(['python3-vt', '-c', code, path, schema], capture_output=True,
                           text=True, timeout=60)
    except Exception:
        return None
    if r.returncode != 0:
        return r.stderr.strip().splitlines()[-1] if r.stderr.strip() else 'invalid'
    return ''


def finish(res, tier, seed, t0):
    """Classify violations, write replays + evidence, print the verdict lines, return exit code."""
    findings = load_findings()
    groups = collections.OrderedDict()
    for v in sorted(res.violations, key=lambda v: (v.get('size', 0), json.dumps(jsonable(v), sort_keys=True))):
        groups.setdefault((v.get('kind'), v.get('sig')), v)
    known_hits = collections.OrderedDict()
    unknown = []
    for (kind, sig), v in groups.items():
        n = res.viol_count.get((kind, sig), 1)
        f = finding_for(kind, sig, findings, res.prop)
        if f is not None:
            ent = known_hits.setdefault(f['id'], [f, 0, v])
            ent[1] += n
        else:
            unknown.append(v)
    lines = []
    if os.environ.get('VERIF_VERBOSE'):
        for v in unknown:
            print('UNKNOWN', res.viol_count.get((v.get('kind'), v.get('sig')), 1), v.get('kind'), '|', v.get('sig'), '|',
                  repr(v.get('text'))[:90], '|', str(v.get('detail'))[:int(os.environ.get('VERIF_VERBOSE'))], '|', v.get('opts', ''))
    for fid, (f, n, v) in known_hits.items():
        lines.append(f"KNOWN-FINDING: property={res.prop} {fid} {f.get('what', '')} "
                     f"[{n} cases, e.g. {json.dumps(jsonable(v.get('text', v.get('witness', ''))))[:100]}]")
    replay_paths = []
    for v in unknown:
        body = dict(v)
        body['property'] = res.prop
        sha = hashlib.sha256(json.dumps(jsonable(body), sort_keys=True).encode()).hexdigest()[:12]
        path = os.path.join(OUT, 'replays', res.prop, sha + '.json')
        write_json(path, body)
        replay_paths.append(path)
        lines.append(f'VIOLATION property={res.prop} replay={path}')
        if len(replay_paths) >= 25:
            break
    for m in res.model_errors:
        lines.append(f'HARNESS-ERROR property={res.prop} {m}')
    cov = dict(res.coverage)
    cov['known_findings_hit'] = {fid: {'what': f.get('what', ''), 'cases': n}
                                 for fid, (f, n, v) in known_hits.items()}
    cov['tree'] = tree_id()
    ev = {'property_id': res.prop, 'tier': tier, 'seed': seed, 'level': res.level, 'coverage': cov,
          'assumptions': res.assumptions, 'wall_s': round(time.time() - t0, 2),
          'violations': len(unknown)}
    evpath = os.path.join(OUT, 'evidence', res.prop + '.json')
    write_json(evpath, ev)
    bad = validate_evidence(evpath)
    if bad:
        lines.append(f'HARNESS-ERROR property={res.prop} evidence does not validate: {bad}')
    for ln in lines:
        print(ln)
    summary = {k: cov.get(k) for k in ('evaluations', 'distinct_nontrivial', 'states', 'transitions',
                                      'traces_validated_against_impl', 'exhaustive') if k in cov}
    print(f'{res.prop} tier={tier} seed={seed} wall={ev["wall_s"]}s {summary} '
          f'unknown_violations={len(unknown)} known={len(known_hits)}')
    sys.stdout.flush()
    if unknown:
        return 1
    if res.model_errors or bad:
        return 2
    return 0
