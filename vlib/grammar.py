"""The verification grammar (DESIGN 3): an annotated generator of SQL scripts.

build(ctx, seed) emits tokens through a Builder; every alternative is a ctx.choose() point with a
default, so a seed is 'all defaults + the seed's own overrides' and a deviation is one non-default
answer. Choice families:
  der   derivation alternatives (which production)
  lit   spelling of names / literals (bare, "quoted", `backquoted`, 'it''s', $$..$$ ...)
  ws    replacement of a non-empty inter-token whitespace by another non-empty whitespace
  wsk   the whitespace inside a multi-word keyword (ORDER BY, END IF, LEFT OUTER JOIN ...)
  ws0   making an optional gap empty / non-empty (a,b vs a, b)
  cm    a comment placed in a gap
  case  letter case of one keyword token
  sep   statement separator filler in scripts
"""

WS_REQ = [' ', '  ', '\t', '\n', '\r\n', ' \n ', '\n    ']
WS_INNER = [' ', '  ', '\t', '\n', '\r\n']
COMMENTS = [' /* c */ ', ' -- c\n', ' /*+ h */ ', ' --+ h\n', ' # c\n', '/* c */', '\n-- c\n',
            ' /* a\n b */ ', ' /* a *//* b */', ' -- a\n-- b\n', ' /* a */ -- b\n', ' /*+ h *//* c */ ',
            ' /* c *//*+ h */ ', ' /* c */ /*+ h */ ', ' -- c\n--+ h\n', ' /*+ a\n b */ ']
# comments before the first / after the last token of a statement
EDGE_COMMENTS = ['/* c */ ', '-- c\n', ' /* c */', ' -- c', ' /* a *//* b */', '\n-- c\n', ' /*+ h */', ' # c']
CASES = ['lower', 'upper', 'title', 'alt']
NAME_FORMS = ['{}', '"{} q"', '`{}`', '"{};"', 'é{}', '"{} \n q"', '"{}\\"\r\nq"', '`{} \n q`', '"{}""q"', '[{} q]']
STR_FORMS = ["'x'", "'it''s'", "'a;b'", "'a--b'", "'a/*b'", "'a long string literal'", "''", "'é'",
             "'a \n b'", "'a\\'\r\nb'", "'a\rb'", "'\"'", "'a '' \n b'"]
DOLLAR_FORMS = ['$$x;y$$', "$t$a'b$t$", '$$ $$', '$$a \n b$$', '$$a\r\nb$$']
# uniform respellings of a whole statement (one deviation each)
# uniform respellings that only replace non-empty whitespace / change keyword case (C11)
WSTYLES = [None, 'nl', 'crlf', 'tabs', 'wide', 'mixed', 'upper', 'title', 'altcase', 'kw-inner-nl', 'upper-nl']
STYLES = [None, 'lead-comma', 'lead-comma-nl', 'blank-all', 'tight', 'cm-all', 'cmline-all',
          'hint-all', 'dq-names']


def recase(word, how):
    if how == 'lower':
        return word.lower()
    if how == 'upper':
        return word.upper()
    if how == 'title':
        return word.title()
    return ''.join(c.upper() if i % 2 else c.lower() for i, c in enumerate(word))


class Tok:
    __slots__ = ('text', 'cls', 'filler', 'stmt', 'gap')

    def __init__(self, text, cls, filler, stmt, gap):
        self.text, self.cls, self.filler, self.stmt, self.gap = text, cls, filler, stmt, gap


class Builder:
    def __init__(self, ctx):
        self.ctx = ctx
        self.toks = []
        self.si = 0
        self.style = ctx.choose('style', 'style', STYLES)
        self.wstyle = ctx.choose('wstyle', 'wstyle', WSTYLES)
        self.head = self.tail = ''
        self.kinds = []          # expected get_type per statement (when known)

    # ---- choice helpers
    def pick(self, key, alts, default=0, family='der'):
        return self.ctx.choose(family, key, alts, default)

    def _filler(self, gap, ws, text=''):
        i = len(self.toks)
        if gap in ('none', 'start'):
            return ''
        default = ws if ws is not None else (' ' if gap == 'req' else '')
        st = self.style
        if st:
            prev = self.toks[-1].text if self.toks else ''
            if st in ('lead-comma', 'lead-comma-nl'):
                if text == ',':
                    default = ' ' if st == 'lead-comma' else '\n'
                elif prev == ',':
                    default = ''
            elif st == 'blank-all' and gap == 'opt':
                default = ' '
            elif st == 'tight' and gap == 'opt':
                default = ''
            elif st == 'cm-all':
                return ' /* c */ '
            elif st == 'cmline-all':
                return ' -- c\n'
            elif st == 'hint-all':
                return ' /*+ h */ '
        wst = self.wstyle
        if wst and default != '':
            default = {'nl': '\n', 'crlf': '\r\n', 'tabs': '\t', 'wide': '   ', 'upper-nl': '\n',
                       'mixed': ' \t\n '[i % 4:][:2] or ' '}.get(wst, default)
        f = default
        if default != '':
            f = self.ctx.choose('ws', f'ws{i}', [default] + [a for a in WS_REQ if a != default])
            if gap == 'opt':
                if self.ctx.choose('ws0', f'ws0_{i}', [False, True]):
                    f = ''
        elif gap == 'opt':
            f = self.ctx.choose('ws0', f'ws0_{i}', ['', ' ', '\n'])
        cm = self.ctx.choose('cm', f'cm{i}', [None] + COMMENTS)
        if cm:
            f = cm
        return f

    def emit(self, text, cls, gap='req', ws=None):
        if not self.toks or self.toks[-1].stmt != self.si:
            if gap != 'sep':
                gap = 'start'
        f = self._filler(gap, ws, text) if gap != 'sep' else ws
        self.toks.append(Tok(text, cls, f, self.si, gap))

    def kw(self, words, gap='req', ws=None, cls='kw'):
        i = len(self.toks)
        ws_words = words.split(' ')
        how = self.ctx.choose('case', f'case{i}', CASES)
        wst = self.wstyle
        if wst in ('upper', 'upper-nl'):
            how = 'upper'
        elif wst == 'title':
            how = 'title'
        elif wst == 'altcase':
            how = 'alt'
        parts = [recase(ws_words[0], how)]
        for j, w in enumerate(ws_words[1:]):
            inner = self.ctx.choose('wsk', f'wsk{i}.{j}', WS_INNER)
            if wst in ('kw-inner-nl', 'nl', 'upper-nl'):
                inner = '\n'
            elif wst == 'crlf':
                inner = '\r\n'
            elif wst == 'tabs':
                inner = '\t'
            elif wst == 'wide':
                inner = '   '
            parts.append(inner)
            parts.append(recase(w, how))
        self.emit(''.join(parts), cls, gap, ws)

    def name(self, base, gap='req', ws=None, key=None):
        i = len(self.toks)
        form = self.ctx.choose('lit', f'nm{i}', NAME_FORMS)
        if self.style == 'dq-names' and form == '{}':
            form = '"{}"'
        self.emit(form.format(base), 'name', gap, ws)

    def string(self, gap='req', ws=None):
        i = len(self.toks)
        self.emit(self.ctx.choose('lit', f'st{i}', STR_FORMS), 'str', gap, ws)

    def p(self, text, gap='opt', ws=None):
        self.emit(text, 'punct', gap, ws)

    def op(self, text, gap='opt', ws=' '):
        self.emit(text, 'op', gap, ws)

    def num(self, text='1', gap='req', ws=None):
        self.emit(text, 'num', gap, ws)

    # ---- rendering
    def text(self):
        return self.head + ''.join(t.filler + t.text for t in self.toks) + self.tail

    def finish(self):
        """statement-edge comments (choice points met last)"""
        self.head = self.ctx.choose('cm', 'cmhead', [''] + EDGE_COMMENTS[:2] + ['/*+ h */ ', '/* a *//* b */ '])
        self.tail = self.ctx.choose('cm', 'cmtail', [''] + EDGE_COMMENTS[2:])
        return self

    # ================================================================== nonterminals
    def colref(self, k, base='c', gap='req', ws=None):
        how = self.pick(k + '.q', ['plain', 'qualified', 'qualified2'])
        if how == 'plain':
            self.name(base, gap, ws)
        else:
            if how == 'qualified2':
                self.name('s', gap, ws)
                self.p('.', 'none')
                self.name('t', 'none')
            else:
                self.name('t', gap, ws)
            self.p('.', 'none')
            self.name(base, 'none')

    def func(self, k, depth, gap='req', ws=None):
        fn = self.pick(k + '.fn', ['count', 'coalesce', 'f', 'max'])
        self.emit(fn, 'name', gap, ws)
        sp = self.pick(k + '.sp', ['', ' ', '\n', '  '])
        if sp:
            self.p('(', 'opt', sp)
        else:
            self.p('(', 'none')
        n = self.pick(k + '.argc', [1, 0, 2, 'star'])
        if n == 'star':
            self.emit('*', 'op', 'opt')
        else:
            for j in range(n):
                if j:
                    self.p(',', 'opt')
                self.expr(f'{k}.a{j}', depth + 1, gap='opt', ws=' ' if j else '')
        self.p(')', 'opt')
        if self.pick(k + '.over', [False, True]):
            self.kw('over')
            self.p('(', 'opt', ' ')
            self.kw('partition by', 'opt')
            self.colref(k + '.pb', 'p')
            if self.pick(k + '.ob', [True, False]):
                self.kw('order by')
                self.colref(k + '.obc', 'o')
            self.p(')', 'opt')

    def case(self, k, depth, gap='req', ws=None):
        self.kw('case', gap, ws)
        if self.pick(k + '.operand', [False, True]):
            self.colref(k + '.op', 'x')
        for j in range(self.pick(k + '.whens', [1, 2])):
            self.kw('when')
            if self.pick(k + f'.w{j}', ['cond', 'value']) == 'cond':
                self.cond(f'{k}.wc{j}', depth + 1)
            else:
                self.num('1')
            self.kw('then')
            self.expr(f'{k}.t{j}', depth + 1)
        if self.pick(k + '.else', [True, False]):
            self.kw('else')
            self.expr(k + '.e', depth + 1)
        self.kw('end')

    def expr(self, k, depth=0, gap='req', ws=None):
        alts = ['col', 'num', 'str', 'ph', 'null', 'float']
        if depth < 2:
            alts += ['func', 'binop', 'paren', 'case', 'cast', 'array', 'neg', 'concat', 'dollar',
                     'typed', 'subq', 'var', 'hashname', 'kwname', 'tz']
        how = self.pick(k, alts)
        if how == 'col':
            self.colref(k + '.c', 'c', gap, ws)
        elif how == 'num':
            self.num(self.pick(k + '.n', ['1', '42', '0']), gap, ws)
        elif how == 'float':
            self.num(self.pick(k + '.n', ['1.5', '.5', '1e3']), gap, ws)
        elif how == 'str':
            self.string(gap, ws)
        elif how == 'ph':
            self.emit(self.pick(k + '.p', ['?', '%s', ':v', '$1', '%(n)s']), 'ph', gap, ws)
        elif how == 'null':
            self.kw('null', gap, ws)
        elif how == 'func':
            self.func(k + '.f', depth, gap, ws)
        elif how == 'binop':
            self.expr(k + '.l', depth + 1, gap, ws)
            self.op(self.pick(k + '.o', ['+', '-', '*', '/', '||', '%']))
            self.expr(k + '.r', depth + 1, 'opt', ' ')
        elif how == 'concat':
            self.expr(k + '.l', depth + 1, gap, ws)
            self.op('||', 'opt', '')
            self.string('opt', '')
        elif how == 'paren':
            self.p('(', gap, ws)
            self.expr(k + '.i', depth + 1, 'opt', '')
            self.p(')', 'opt')
        elif how == 'case':
            self.case(k + '.k', depth, gap, ws)
        elif how == 'cast':
            self.colref(k + '.c', 'c', gap, ws)
            self.p('::', 'none')
            self.emit(self.pick(k + '.ty', ['int', 'text', 'numeric']), 'name', 'none')
        elif how == 'array':
            self.colref(k + '.c', 'arr', gap, ws)
            self.p('[', 'none')
            self.num('1', 'none')
            self.p(']', 'none')
        elif how == 'neg':
            self.op('-', gap, ws if ws is not None else ' ')
            self.colref(k + '.c', 'c', 'none')
        elif how == 'dollar':
            self.emit(self.pick(k + '.d', DOLLAR_FORMS, family='lit'), 'str', gap, ws)
        # ---- extension productions (only reachable through a deviation)
        elif how == 'typed':
            self.emit(self.pick(k + '.ty', ['date', 'timestamp', 'interval']), 'kw', gap, ws)
            self.string()
        elif how == 'subq':
            self.p('(', gap, ws)
            self.kw('select', 'opt', '')
            self.num('1')
            self.p(')', 'opt')
        elif how == 'var':
            self.emit('@v', 'name', gap, ws)
        elif how == 'hashname':
            self.emit('#tmp', 'name', gap, ws)
        elif how == 'kwname':
            self.emit(self.pick(k + '.w', ['data', 'level', 'map', 'zone']), 'name', gap, ws)
        elif how == 'tz':
            # the dedicated rule takes AT TIME ZONE and its literal into one Keyword.TZCast token
            # (emitted as one unit: a comment between ZONE and the literal would make it four other tokens)
            self.colref(k + '.c', 'c', gap, ws)
            i = len(self.toks)
            lit = self.ctx.choose('lit', f'tz{i}', ["'UTC'", "'Etc/GMT  0\t1'", "'it''s a \n zone'"])
            how = self.ctx.choose('case', f'case{i}', CASES)
            if self.wstyle in ('upper', 'upper-nl'):
                how = 'upper'
            inner = self.ctx.choose('wsk', f'wsk{i}.0', WS_INNER)
            self.emit(recase('at', how) + inner + recase('time', how) + ' ' + recase('zone', how) + ' ' + lit, 'kw')

    def cond(self, k, depth=0):
        alts = ['cmp', 'isnull', 'like', 'between', 'inlist']
        if depth < 3:
            alts += ['and', 'or', 'not', 'paren', 'insel', 'exists', 'and3', 'notin', 'notlike']
        how = self.pick(k, alts)
        if how == 'cmp':
            self.expr(k + '.l', depth + 1)
            self.op(self.pick(k + '.o', ['=', '<', '>=', '<>', '!=']))
            self.expr(k + '.r', depth + 1, 'opt', ' ')
        elif how in ('and', 'or', 'and3'):
            self.cond(k + '.a', depth + 1)
            self.kw('and' if how != 'or' else 'or')
            self.cond(k + '.b', depth + 1)
            if how == 'and3':
                self.kw('or')
                self.cond(k + '.c', depth + 1)
        elif how == 'not':
            self.kw('not')
            self.cond(k + '.a', depth + 1)
        elif how == 'between':
            self.colref(k + '.c', 'c')
            self.kw('between')
            self.num('1')
            self.kw('and')
            self.num('9')
        elif how in ('inlist', 'notin'):
            self.colref(k + '.c', 'c')
            if how == 'notin':
                self.kw('not')
            self.kw('in')
            self.p('(', 'opt', ' ')
            self.num('1', 'opt', '')
            self.p(',', 'opt')
            self.num('2', 'opt', ' ')
            self.p(')', 'opt')
        elif how == 'insel':
            self.colref(k + '.c', 'c')
            self.kw('in')
            self.p('(', 'opt', ' ')
            self.select(k + '.s', depth + 2, gap='opt', ws='')
            self.p(')', 'opt')
        elif how == 'exists':
            self.kw('exists')
            self.p('(', 'opt', ' ')
            self.select(k + '.s', depth + 2, gap='opt', ws='')
            self.p(')', 'opt')
        elif how == 'isnull':
            self.colref(k + '.c', 'c')
            self.kw('is')
            if self.pick(k + '.n', [False, True]):
                self.kw('not null')
            else:
                self.kw('null')
        elif how in ('like', 'notlike'):
            self.colref(k + '.c', 'c')
            self.kw('not like' if how == 'notlike' else 'like', cls='kwop')
            self.string()
        elif how == 'paren':
            self.p('(', 'req')
            self.cond(k + '.i', depth + 1)
            self.p(')', 'opt')

    def item(self, k, depth, gap='req', ws=None):
        how = self.pick(k + '.kind', ['expr', 'star', 'qstar'])
        if how == 'star':
            self.emit('*', 'op', gap, ws)
            return
        if how == 'qstar':
            self.name('t', gap, ws)
            self.p('.', 'none')
            self.emit('*', 'op', 'none')
            return
        self.expr(k + '.e', depth, gap, ws)
        al = self.pick(k + '.alias', ['none', 'as', 'bare'])
        if al == 'as':
            self.kw('as')
        if al != 'none':
            self.name('al')

    def items(self, k, depth):
        n = self.pick(k + '.n', [1, 2, 3])
        for j in range(n):
            if j:
                self.p(',', 'opt')
            self.item(f'{k}.{j}', depth, 'req' if j == 0 else 'opt', None if j == 0 else ' ')

    def tref(self, k, depth, base='t'):
        how = self.pick(k + '.kind', ['table', 'qualified', 'subq'] if depth < 2 else ['table', 'qualified'])
        if how == 'subq':
            self.p('(', 'req')
            self.select(k + '.s', depth + 2, gap='opt', ws='')
            self.p(')', 'opt')
            self.name('sq')
            return
        if how == 'qualified':
            self.name('sch')
            self.p('.', 'none')
            self.name(base, 'none')
        else:
            self.name(base)
        al = self.pick(k + '.alias', ['none', 'bare', 'as'])
        if al == 'as':
            self.kw('as')
        if al != 'none':
            self.name(base + 'x')

    def join(self, k, depth):
        jk = self.pick(k + '.kind', ['join', 'left join', 'left outer join', 'inner join', 'cross join',
                                      'natural join', 'full outer join', 'right join'])
        self.kw(jk)
        self.tref(k + '.t', depth, 'u')
        if jk not in ('cross join', 'natural join'):
            if self.pick(k + '.on', ['on', 'using']) == 'on':
                self.kw('on')
                self.cond(k + '.c', depth + 1)
            else:
                self.kw('using')
                self.p('(', 'opt', ' ')
                self.name('id', 'opt', '')
                self.p(')', 'opt')

    def select(self, k, depth=0, gap='req', ws=None):
        self.kw('select', gap, ws, cls='dml')
        if self.pick(k + '.distinct', [False, True]):
            self.kw('distinct')
        self.items(k + '.items', depth + 1)
        if not self.pick(k + '.from', [True, False]):
            return
        self.kw('from')
        self.tref(k + '.t0', depth)
        if self.pick(k + '.t1', [False, True]):
            self.p(',', 'opt')
            self.tref(k + '.t1r', depth, 'v')
        for j in range(self.pick(k + '.joins', [0, 1, 2])):
            self.join(f'{k}.j{j}', depth)
        if self.pick(k + '.where', [False, True]):
            self.kw('where')
            self.cond(k + '.w', depth + 1)
        if self.pick(k + '.group', [False, True]):
            self.kw('group by')
            self.colref(k + '.g', 'g')
            if self.pick(k + '.g2', [False, True]):
                self.p(',', 'opt')
                self.colref(k + '.g2c', 'h', 'opt', ' ')
            if self.pick(k + '.having', [False, True]):
                self.kw('having')
                self.cond(k + '.h', depth + 1)
        if self.pick(k + '.order', [False, True]):
            self.kw('order by')
            self.colref(k + '.o', 'o')
            d = self.pick(k + '.dir', [None, 'desc', 'asc', 'desc nulls last'])
            if d:
                self.kw(d)
            if self.pick(k + '.o2', [False, True]):
                self.p(',', 'opt')
                self.colref(k + '.o2c', 'p', 'opt', ' ')
                d2 = self.pick(k + '.o2dir', [None, 'asc', 'desc'])
                if d2:
                    self.kw(d2)
        if depth == 0 and self.pick(k + '.into', [False, True]):
            self.kw('into')
            self.emit('outfile', 'name')
            self.string()
        if self.pick(k + '.limit', [False, True]):
            self.kw('limit')
            self.num('10')
            if self.pick(k + '.offset', [False, True]):
                self.kw('offset')
                self.num('5')
        so = self.pick(k + '.setop', [None, 'union', 'union all', 'except', 'intersect']) if depth < 2 else None
        if so:
            self.kw(so)
            self.select(k + '.u', depth + 2)

    def insert(self, k):
        self.kw('insert', cls='dml')
        self.kw('into')
        self.tref(k + '.t', 2)
        if self.pick(k + '.cols', [True, False]):
            self.p('(', 'opt', ' ')
            self.name('a', 'opt', '')
            self.p(',', 'opt')
            self.name('b', 'opt', ' ')
            self.p(')', 'opt')
        if self.pick(k + '.src', ['values', 'select']) == 'values':
            self.kw('values')
            for r in range(self.pick(k + '.rows', [1, 2])):
                if r:
                    self.p(',', 'opt')
                self.p('(', 'opt', ' ')
                self.expr(f'{k}.v{r}a', 1, 'opt', '')
                self.p(',', 'opt')
                self.expr(f'{k}.v{r}b', 1, 'opt', ' ')
                self.p(')', 'opt')
        else:
            self.select(k + '.s', 1)
        if self.pick(k + '.ret', [False, True]):
            self.kw('returning')
            self.name('id')

    def update(self, k):
        self.kw('update', cls='dml')
        self.tref(k + '.t', 2)
        self.kw('set')
        for j in range(self.pick(k + '.n', [1, 2])):
            if j:
                self.p(',', 'opt')
            self.name('c%d' % j, 'req' if j == 0 else 'opt', None if j == 0 else ' ')
            self.op('=')
            self.expr(f'{k}.v{j}', 1, 'opt', ' ')
        if self.pick(k + '.where', [True, False]):
            self.kw('where')
            self.cond(k + '.w', 1)
        if self.pick(k + '.ret', [False, True]):
            self.kw('returning')
            self.name('id')

    def delete(self, k):
        self.kw('delete', cls='dml')
        self.kw('from')
        self.tref(k + '.t', 2)
        if self.pick(k + '.where', [True, False]):
            self.kw('where')
            self.cond(k + '.w', 1)
        if self.pick(k + '.ret', [False, True]):
            self.kw('returning')
            self.name('id')

    def create_table(self, k):
        self.kw('create', cls='ddl')
        self.kw('table')
        if self.pick(k + '.ine', [False, True]):
            self.kw('if')
            self.kw('not')
            self.kw('exists')
        self.tref(k + '.t', 2)
        if self.pick(k + '.ctas', [False, True]):
            self.kw('as')
            self.select(k + '.s', 0)
            return
        self.p('(', 'opt', ' ')
        n = self.pick(k + '.n', [2, 1, 3])
        for j in range(n):
            if j:
                self.p(',', 'opt')
            self.name('c%d' % j, 'opt', '' if j == 0 else ' ')
            ty = self.pick(f'{k}.ty{j}', ['int', 'varchar(10)', 'numeric(10, 2)', 'text', 'timestamp'])
            if '(' in ty:
                base, rest = ty.split('(')
                self.emit(base, 'name')
                self.p('(', 'none')
                args = rest[:-1].split(', ')
                for ai, a in enumerate(args):
                    if ai:
                        self.p(',', 'opt')
                    self.num(a, 'opt', ' ' if ai else '')
                self.p(')', 'opt')
            else:
                self.emit(ty, 'name')
            c = self.pick(f'{k}.con{j}', [None, 'not null', 'primary key', 'default'])
            if c == 'default':
                self.kw('default')
                self.num('0')
            elif c:
                self.kw(c)
        self.p(')', 'opt')

    def create_view(self, k):
        self.kw(self.pick(k + '.cr', ['create', 'create or replace']), cls='ddl')
        self.kw('view')
        self.name('v')
        self.kw('as')
        self.select(k + '.s', 1)

    def simple(self, k):
        how = self.pick(k, ['drop', 'alter', 'truncate', 'create_index', 'grant'])
        if how == 'drop':
            self.kw('drop', cls='ddl')
            self.kw('table')
            if self.pick(k + '.ie', [False, True]):
                self.kw('if')
                self.kw('exists')
            self.tref(k + '.t', 2)
        elif how == 'alter':
            self.kw('alter', cls='ddl')
            self.kw('table')
            self.tref(k + '.t', 2)
            self.kw('add')
            self.kw('column')
            self.name('c')
            self.emit('int', 'name')
        elif how == 'truncate':
            self.kw('truncate', cls='ddl')
            self.kw('table')
            self.tref(k + '.t', 2)
        elif how == 'create_index':
            self.kw('create', cls='ddl')
            self.kw('index')
            self.name('ix')
            self.kw('on')
            self.name('t')
            self.p('(', 'opt', ' ')
            self.name('c', 'opt', '')
            self.p(')', 'opt')
        else:
            self.kw('grant')
            self.kw('select', cls='dml')
            self.kw('on')
            self.name('t')
            self.kw('to')
            self.name('u')

    def with_stmt(self, k):
        self.kw('with', cls='cte')
        for j in range(self.pick(k + '.n', [1, 2])):
            if j:
                self.p(',', 'opt')
            self.name('cte%d' % j, 'req' if j == 0 else 'opt', None if j == 0 else ' ')
            self.kw('as')
            self.p('(', 'opt', ' ')
            self.select(f'{k}.c{j}', 2, 'opt', '')
            self.p(')', 'opt')
        body = self.pick(k + '.body', ['select', 'insert', 'update', 'delete'])
        getattr(self, body)(k + '.b') if body != 'select' else self.select(k + '.b', 1)

    STMTS = ['select', 'insert', 'update', 'delete', 'create_table', 'create_view', 'simple', 'with_stmt']
    TYPES = {'select': 'SELECT', 'insert': 'INSERT', 'update': 'UPDATE', 'delete': 'DELETE',
             'create_table': 'CREATE', 'create_view': None, 'simple': None, 'with_stmt': None}

    def stmt(self, k, default=0):
        how = self.pick(k, self.STMTS, default)
        pre = self.pick(k + '.prefix', [None, 'explain', 'explain analyze'])
        if pre:
            self.kw(pre)
        if how == 'select':
            self.select(k + '.sel', 0)
        else:
            getattr(self, how)(k + '.' + how)
        return how


# ---------------------------------------------------------------------- seeds

def _o(**kw):
    return kw


# Each seed: (name, statement kind, {choice key: alternative VALUE}) - values are translated to
# indices the first time the key is met (so seeds stay readable).
SEEDS = [
    ('select-basic', 'select', {}),
    ('select-3items-where', 'select', {'s.sel.items.n': 3, 's.sel.where': True, 's.sel.items.1.alias': 'as'}),
    ('select-join-on', 'select', {'s.sel.joins': 1, 's.sel.where': True}),
    ('select-2joins-using', 'select', {'s.sel.joins': 2, 's.sel.j0.kind': 'left outer join', 's.sel.j1.on': 'using'}),
    ('select-group-having-order-limit', 'select', {'s.sel.group': True, 's.sel.having': True, 's.sel.order': True,
                                                   's.sel.limit': True, 's.sel.dir': 'desc', 's.sel.items.n': 2,
                                                   's.sel.items.1.e': 'func'}),
    ('select-order-two-keys', 'select', {'s.sel.order': True, 's.sel.dir': 'desc', 's.sel.o2': True, 's.sel.o2dir': 'asc'}),
    ('select-at-time-zone', 'select', {'s.sel.items.n': 2, 's.sel.items.0.e': 'tz', 's.sel.items.0.alias': 'as', 's.sel.where': True}),
    ('select-subquery-from', 'select', {'s.sel.t0.kind': 'subq', 's.sel.where': True}),
    ('select-in-subquery', 'select', {'s.sel.where': True, 's.sel.w': 'insel'}),
    ('select-in-subquery-where', 'select', {'s.sel.where': True, 's.sel.w': 'insel', 's.sel.w.s.where': True}),
    ('select-from-subquery-where', 'select', {'s.sel.t0.kind': 'subq', 's.sel.t0.s.where': True}),
    ('select-exists', 'select', {'s.sel.where': True, 's.sel.w': 'exists'}),
    ('select-case', 'select', {'s.sel.items.0.e': 'case', 's.sel.items.0.alias': 'as', 's.sel.items.n': 2}),
    ('select-case-operand-2when', 'select', {'s.sel.items.0.e': 'case', 's.sel.items.0.e.k.operand': True,
                                             's.sel.items.0.e.k.whens': 2, 's.sel.items.0.e.k.w0': 'value',
                                             's.sel.items.0.e.k.w1': 'value'}),
    ('select-and-or-between', 'select', {'s.sel.where': True, 's.sel.w': 'and3', 's.sel.w.b': 'between'}),
    ('select-window', 'select', {'s.sel.items.0.e': 'func', 's.sel.items.0.e.f.over': True, 's.sel.items.0.alias': 'as'}),
    ('select-union', 'select', {'s.sel.setop': 'union all', 's.sel.where': True}),
    ('select-except-order', 'select', {'s.sel.setop': 'except'}),
    ('select-union-both-where', 'select', {'s.sel.setop': 'union all', 's.sel.where': True, 's.sel.u.where': True}),
    ('select-operators', 'select', {'s.sel.items.0.e': 'binop', 's.sel.items.0.e.l': 'col', 's.sel.items.0.e.r': 'num',
                                    's.sel.items.n': 2, 's.sel.items.1.e': 'concat', 's.sel.where': True}),
    ('select-cast-array-neg', 'select', {'s.sel.items.n': 3, 's.sel.items.0.e': 'cast', 's.sel.items.1.e': 'array',
                                         's.sel.items.2.e': 'neg'}),
    ('select-strings', 'select', {'s.sel.items.n': 2, 's.sel.items.0.e': 'str', 's.sel.items.1.e': 'dollar',
                                  's.sel.where': True, 's.sel.w': 'like'}),
    ('select-placeholders', 'select', {'s.sel.where': True, 's.sel.w.r': 'ph', 's.sel.limit': True}),
    ('select-star-qstar', 'select', {'s.sel.items.n': 2, 's.sel.items.0.kind': 'star', 's.sel.items.1.kind': 'qstar',
                                     's.sel.t1': True}),
    ('select-distinct-inlist-isnull', 'select', {'s.sel.distinct': True, 's.sel.where': True, 's.sel.w': 'and',
                                                 's.sel.w.a': 'inlist', 's.sel.w.b': 'isnull'}),
    ('select-nofrom', 'select', {'s.sel.from': False, 's.sel.items.n': 2, 's.sel.items.1.e': 'float'}),
    ('select-paren-not', 'select', {'s.sel.where': True, 's.sel.w': 'not', 's.sel.w.a': 'paren'}),
    ('insert-values', 'insert', {}),
    ('insert-2rows-returning', 'insert', {'s.insert.rows': 2, 's.insert.ret': True, 's.insert.v0a': 'str'}),
    ('insert-select', 'insert', {'s.insert.src': 'select', 's.insert.cols': False}),
    ('update-where', 'update', {}),
    ('update-2set-case', 'update', {'s.update.n': 2, 's.update.v1': 'case'}),
    ('delete-where', 'delete', {}),
    ('delete-in-subquery', 'delete', {'s.delete.w': 'insel'}),
    ('update-returning', 'update', {'s.update.ret': True}),
    ('create-table', 'create_table', {}),
    ('create-table-3cols', 'create_table', {'s.create_table.n': 3, 's.create_table.ty0': 'varchar(10)',
                                            's.create_table.con0': 'primary key', 's.create_table.ty1': 'numeric(10, 2)',
                                            's.create_table.con1': 'not null', 's.create_table.con2': 'default'}),
    ('create-table-as-select', 'create_table', {'s.create_table.ctas': True, 's.create_table.s.items.0.e': 'func'}),
    ('create-view', 'create_view', {}),
    ('create-or-replace-view', 'create_view', {'s.create_view.cr': 'create or replace', 's.create_view.s.where': True}),
    ('explain-create-or-replace-view', 'create_view', {'s.prefix': 'explain', 's.create_view.cr': 'create or replace'}),
    ('explain-analyze-select', 'select', {'s.prefix': 'explain analyze', 's.sel.where': True}),
    ('drop', 'simple', {}),
    ('alter', 'simple', {'s.simple': 'alter'}),
    ('truncate', 'simple', {'s.simple': 'truncate'}),
    ('create-index', 'simple', {'s.simple': 'create_index'}),
    ('with-select', 'with_stmt', {}),
    ('with-2cte-insert', 'with_stmt', {'s.with_stmt.n': 2, 's.with_stmt.body': 'insert'}),
    ('with-delete', 'with_stmt', {'s.with_stmt.body': 'delete'}),
]


class SeedCtx:
    """Wraps a Ctx: the seed's value-overrides become the *defaults* of the wrapped choice points."""

    def __init__(self, ctx, seed_vals):
        self.ctx = ctx
        self.seed = seed_vals
        self.used = set()

    def choose(self, family, key, alts, default=0):
        if key in self.seed:
            v = self.seed[key]
            if v not in alts:
                raise RuntimeError(f'seed value {v!r} not among alternatives of {key}: {alts}')
            default = alts.index(v)
            self.used.add(key)
        return self.ctx.choose(family, key, alts, default)


def build_stmt(ctx, seed_index):
    """One statement of the grammar. Returns the Builder (tokens, text)."""
    name, kind, vals = SEEDS[seed_index]
    sc = SeedCtx(ctx, vals)
    b = Builder(sc)
    b.stmt_kind = b.stmt('s', Builder.STMTS.index(kind))
    b.finish()
    missing = [k for k in vals if k not in sc.used]
    if missing and not getattr(ctx, 'over', None):
        raise RuntimeError(f'seed {name}: overrides never met: {missing}')
    return b


SEPS = ['; ', ';\n', ';', ' ;\n\n', '; -- c\n', ';\n/* c */\n', ';\r\n', ' ; ', ';\t', ';\n-- c\n-- d\n',
        '; /* c */ ', ';\n\n\n']


def build_script(ctx, seed_indices, final_semicolon_default=True):
    """stmt (SEP stmt)* [;] - every separator filler is a 'sep' choice point."""
    b = None
    parts = []
    for n, si in enumerate(seed_indices):
        name, kind, vals = SEEDS[si]
        pctx = _Prefixed(ctx, f'S{n}.')
        sc = SeedCtx(pctx, vals)
        bb = Builder(sc)
        bb.stmt_kind = bb.stmt('s', Builder.STMTS.index(kind))
        parts.append(bb)
    seps = []
    for n in range(len(parts) - 1):
        seps.append(ctx.choose('sep', f'sep{n}', SEPS))
    fin = ctx.choose('sep', 'final', [';', '', ';\n', '; -- c', ' ; '] if final_semicolon_default else ['', ';', ';\n', '; -- c', ' ; '])
    return parts, seps, fin


class _Prefixed:
    def __init__(self, ctx, prefix):
        self.ctx, self.prefix = ctx, prefix
        self.over = getattr(ctx, 'over', None)

    def choose(self, family, key, alts, default=0):
        return self.ctx.choose(family, self.prefix + key, alts, default)


def script_text(parts, seps, fin):
    out = []
    for i, p in enumerate(parts):
        out.append(p.text())
        if i < len(seps):
            out.append(seps[i])
    out.append(fin)
    return ''.join(out)
