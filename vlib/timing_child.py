"""Child process for timing work that may not terminate (C16): reads a JSON job on stdin, prints JSON.
The parent enforces the wall-clock timeout and kills the child; a killed child means 'too slow'."""
import json
import re
import sys
import time

FLAGS = re.IGNORECASE | re.UNICODE
SUFFIXES = ['', '\x00', '\n', "'", '"', ';', '\x01', ' ']


def cpu(fn):
    best = None
    for _ in range(2):
        t0 = time.process_time()
        fn()
        dt = time.process_time() - t0
        best = dt if best is None else min(best, dt)
    return best


def main():
    job = json.load(sys.stdin)
    sys.path.insert(0, job['repo'])
    if job['mode'] == 'confirm':
        rx = re.compile(job['pattern'], FLAGS)
        pre, pump = job['prefix'], job['pump']
        times = []
        for n in (6, 9, 12, 15, 18, 21, 24, 27, 30):
            worst = 0.0
            for suf in SUFFIXES + job.get('suffixes', []):
                text = pre + pump * n + suf
                t0 = time.process_time()
                rx.match(text)
                worst = max(worst, time.process_time() - t0)
            times.append((n, worst))
            print(json.dumps({'progress': times}), flush=True)
            if worst > 1.5:
                break
        print(json.dumps({'done': times}), flush=True)
    else:
        from sqlparse import lexer
        size = job['size']
        for ri, pat, pre, pump in job['items']:
            n = max(1, size // max(1, len(pump)))
            worst = (0.0, 0.0, '')
            for suf in SUFFIXES[:6]:
                text = pre + pump * n + suf
                t1 = cpu(lambda: [None for _ in lexer.tokenize(text)])
                ratio = 0.0
                t2 = t1
                if t1 > 0.02:
                    text2 = pre + pump * (2 * n) + suf
                    t2 = cpu(lambda: [None for _ in lexer.tokenize(text2)])
                    ratio = t2 / t1
                if max(t1, t2) > worst[0]:
                    worst = (max(t1, t2), ratio, f'{pre!r}+{pump!r}*{n}+{suf!r}')
            print(json.dumps({'item': [ri, pat, pre, pump, worst[0], worst[1], worst[2]]}), flush=True)
        print(json.dumps({'done': True}), flush=True)


if __name__ == '__main__':
    main()
