"""E5: cooperative scheduler over real threads + preemption-bounded stateless exploration.

Threads run real library code under sys.settrace; at every scheduling point (a 'line' or 'opcode' event in
selected code objects, a lock operation, thread exit) exactly one thread holds the baton. The explorer
re-runs the harness with a forced choice prefix and default choice 0 (keep running the current thread /
lowest id) afterwards, and recurses on every alternative whose preemption count stays within the bound
(the explore(prefix) idiom of iterative context bounding). A prefix replay that meets a different enabled
set than recorded is a hard error.
"""
import sys
import threading


class Deadlock(RuntimeError):
    pass


class Divergence(RuntimeError):
    pass


class SchedLock:
    """Scheduler-aware replacement for threading.Lock (blocked threads are disabled, never spin)."""

    def __init__(self, sched):
        self.sched = sched
        self.owner = None

    def acquire(self, blocking=True, timeout=-1):
        s = self.sched
        tid = s.current()
        if tid is None:                      # outside an exploration: behave like a free lock
            self.owner = 'outside'
            return True
        s.point(tid, 'lock.acquire')
        while self.owner is not None:
            s.block(tid, self)
        self.owner = tid
        return True

    def release(self):
        s = self.sched
        self.owner = None
        tid = s.current()
        if tid is not None:
            s.unblock_waiters(self)
            s.point(tid, 'lock.release')

    def __enter__(self):
        self.acquire()
        return self

    def __exit__(self, *a):
        self.release()

    def locked(self):
        return self.owner is not None


class Execution:
    """One run of n thread bodies under a forced schedule prefix."""

    def __init__(self, bodies, prefix, is_point, granularity='line', expect=None, max_points=200000):
        self.bodies = bodies
        self.prefix = list(prefix)
        self.is_point = is_point              # code object -> bool
        self.granularity = granularity
        self.expect = expect                  # recorded (enabled tuple) per point of the parent run, for the prefix
        self.max_points = max_points
        n = len(bodies)
        self.sems = [threading.Semaphore(0) for _ in range(n)]
        self.done = [False] * n
        self.blocked = [None] * n
        self.results = [None] * n
        self.errors = [None] * n
        self.points = []                      # (running tid, enabled tuple, chosen index, label)
        self.tids = {}
        self.running = None
        self.finished = threading.Semaphore(0)
        self.abort = None

    # ---- called from worker threads
    def current(self):
        return self.tids.get(threading.get_ident())

    def enabled_from(self, tid):
        """canonical order: the running thread first if still enabled, then ascending ids"""
        en = [i for i in range(len(self.bodies)) if not self.done[i] and self.blocked[i] is None]
        if tid in en:
            en.remove(tid)
            en.insert(0, tid)
        return en

    def point(self, tid, label=''):
        if self.abort:
            raise SystemExit
        en = self.enabled_from(tid)
        if not en:
            self.abort = Deadlock(f'no enabled thread at {label}')
            self._wake_all()
            raise SystemExit
        if len(en) == 1 and en[0] == tid:
            return
        i = len(self.points)
        if i >= self.max_points:
            self.abort = RuntimeError('too many scheduling points')
            self._wake_all()
            raise SystemExit
        if i < len(self.prefix):
            ch = self.prefix[i]
            if self.expect is not None and i < len(self.expect) and tuple(en) != tuple(self.expect[i]):
                self.abort = Divergence(f'point {i}: enabled {en}, recorded {self.expect[i]}')
                self._wake_all()
                raise SystemExit
            if ch >= len(en):
                self.abort = Divergence(f'point {i}: choice {ch} out of range for enabled {en}')
                self._wake_all()
                raise SystemExit
        else:
            ch = 0
        self.points.append((tid, tuple(en), ch, label))
        nxt = en[ch]
        if nxt != tid:
            self.running = nxt
            self.sems[nxt].release()
            if not self.done[tid]:
                self.sems[tid].acquire()
                if self.abort:
                    raise SystemExit

    def block(self, tid, what):
        self.blocked[tid] = what
        self.point(tid, 'blocked')
        # when we get the baton back we have been unblocked

    def unblock_waiters(self, what):
        for i in range(len(self.bodies)):
            if self.blocked[i] is what:
                self.blocked[i] = None

    def _wake_all(self):
        for s in self.sems:
            s.release()
        self.finished.release()

    def _tracer(self, frame, event, arg):
        if event != 'call':
            return None
        if not self.is_point(frame.f_code):
            return None
        ff = getattr(self.is_point, 'frame_filter', None)
        if ff is not None and not ff(frame):
            return None
        if self.granularity == 'opcode':
            frame.f_trace_opcodes = True
        want = 'opcode' if self.granularity == 'opcode' else 'line'
        tid = self.current()
        if self.granularity == 'callsite':
            # one scheduling point per function entry / generator resumption
            self.point(tid, f'{frame.f_code.co_name}:{frame.f_lineno}')
            return None

        def local(fr, ev, a):
            if ev == want:
                self.point(tid, f'{fr.f_code.co_name}:{fr.f_lineno}' + (f'@{fr.f_lasti}' if want == 'opcode' else ''))
            return local
        return local

    def _thread(self, tid):
        self.tids[threading.get_ident()] = tid
        self.sems[tid].acquire()              # wait for the baton
        if self.abort:
            return
        sys.settrace(self._tracer)
        try:
            self.results[tid] = self.bodies[tid]()
        except SystemExit:
            pass
        except BaseException as e:  # noqa
            self.errors[tid] = e
        finally:
            sys.settrace(None)
        self.done[tid] = True
        if self.abort:
            return
        en = self.enabled_from(tid)
        if not en:
            if all(self.done):
                self.finished.release()
            else:
                self.abort = Deadlock('threads blocked forever: ' + repr(self.blocked))
                self._wake_all()
            return
        try:
            self.point(tid, 'exit')
        except SystemExit:
            pass

    def run(self):
        ths = [threading.Thread(target=self._thread, args=(i,), daemon=True) for i in range(len(self.bodies))]
        for t in ths:
            t.start()
        self.running = 0
        self.sems[0].release()
        self.finished.acquire()
        for t in ths:
            t.join(timeout=5)
        if self.abort:
            raise self.abort
        return self


def preemptions_before(points, i):
    n = 0
    for tid, en, ch, label in points[:i]:
        if ch != 0 and en[0] == tid and label not in ('blocked', 'exit'):
            n += 1
    return n


def explore(make_bodies, is_point, bound, granularity='line', on_execution=None, max_executions=None,
            roots=None, children_only=False):
    """Stateless DFS. make_bodies() builds fresh bodies (and resets shared state) for each execution.
    on_execution(execution) is the oracle hook. Returns statistics.
    roots: [(prefix, expected enabled sets)] to start from (default: the empty prefix).
    children_only: run just the roots and return their children in stats['children'] (used to split the
    exploration tree over forked workers)."""
    stats = {'executions': 0, 'max_points': 0, 'capped': False, 'switch_points_total': 0, 'children': []}
    stack = list(roots) if roots is not None else [([], None)]
    while stack:
        prefix, expect = stack.pop()
        if max_executions and stats['executions'] >= max_executions:
            stats['capped'] = True
            break
        ex = Execution(make_bodies(), prefix, is_point, granularity, expect).run()
        stats['executions'] += 1
        stats['max_points'] = max(stats['max_points'], len(ex.points))
        stats['switch_points_total'] += len(ex.points)
        if on_execution:
            on_execution(ex)
        rec = [p[1] for p in ex.points]
        for i in range(len(prefix), len(ex.points)):
            tid, en, ch, label = ex.points[i]
            cost = preemptions_before(ex.points, i)
            switching_away_from_runnable = (en[0] == tid and label not in ('blocked', 'exit'))
            if switching_away_from_runnable:
                cost += 1
            if cost > bound:
                continue
            for alt in range(1, len(en)):
                child = ([p[2] for p in ex.points[:i]] + [alt], rec[:i + 1])
                if children_only:
                    stats['children'].append(child)
                else:
                    stack.append(child)
    return stats
