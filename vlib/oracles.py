"""Reference models ("boring", written from the property text, not from the implementation).

Every function returns None when the property holds on the case, or a (kind, sig, detail)
triple describing the first violated clause.
"""
import os
import traceback


def sq():
    import sqlparse
    return sqlparse


# ------------------------------------------------------------------ token type helpers

def tt_in(ttype, parent):
    """ttype is parent or a sub-type of it (own implementation, does not use _TokenType.__contains__)."""
    return ttype is not None and tuple(ttype[:len(parent)]) == tuple(parent)


def is_ws_type(ttype):
    from sqlparse import tokens as T
    return tt_in(ttype, T.Whitespace)


def is_comment_type(ttype):
    from sqlparse import tokens as T
    return tt_in(ttype, T.Comment)


def tname(ttype):
    if ttype is None:
        return 'None'
    if not isinstance(ttype, tuple):
        return f'<not a token type: {ttype!r:.40}>'
    return '.'.join(ttype) or 'Token'


def crash_site(exc):
    """(exception type, innermost frame inside the sqlparse package) of a live exception."""
    tb = exc.__traceback__
    site = None
    for fs in traceback.extract_tb(tb):
        fn = fs.filename.replace(os.sep, '/')
        if '/sqlparse/' in fn:
            site = fn.split('/sqlparse/', 1)[1] + ':' + fs.name
    return f'{type(exc).__name__}@{site or "outside-sqlparse"}'


# ------------------------------------------------------------------ C01 reference lexer

def active_rules():
    """[(pattern source, flags, action)] of the rule table the default lexer really matches with: what
    set_SQL_REGEX() compiled (a change may rewrite the sources on the way), not keywords.SQL_REGEX as written"""
    import re
    from sqlparse import lexer, keywords
    inst = lexer.Lexer.get_default_instance()
    out = []
    try:
        for m, action in inst._SQL_REGEX:
            pat = m.__self__
            out.append((pat.pattern, pat.flags & (re.I | re.U | re.M | re.S | re.X | re.A), action))
    except Exception:  # noqa  (table kept in another form: fall back to the sources)
        out = [(rx, re.IGNORECASE | re.UNICODE, tt) for rx, tt in keywords.SQL_REGEX]
    return out


def rule_sources():
    """rule sources as written in keywords.SQL_REGEX, followed by any source the lexer compiled that is not among them"""
    from sqlparse import keywords
    written = [rx for rx, _ in keywords.SQL_REGEX]
    return written + [rx for rx, _, _ in active_rules() if rx not in written]


class RefLexer:
    """First-match-wins scan over the *current* rule table, re-applied rule by rule."""

    def __init__(self, table=None, tables=None):
        """default: the rule table and the nine keyword tables of the default lexer; `table` / `tables` describe
        a caller's own Lexer configuration (set_SQL_REGEX / add_keywords in that order)"""
        import re
        from sqlparse import keywords, tokens as T, lexer
        self.T = T
        self.kw = keywords
        flags = re.IGNORECASE | re.UNICODE
        if table is not None:
            self.rules = [(re.compile(rx, flags), tt) for rx, tt in table]
            self.tables = list(tables or [])
            self.table_problem = None
            self.min_width = [re._parser.parse(rx, flags).getwidth()[0] for rx, _ in table]
            return
        inst = lexer.Lexer.get_default_instance()
        self.inst = inst
        active = active_rules()
        self.rules = [(re.compile(rx, fl), tt) for rx, fl, tt in active]
        self.table_problem = None
        self.tables = [keywords.KEYWORDS_COMMON, keywords.KEYWORDS_ORACLE, keywords.KEYWORDS_MYSQL,
                       keywords.KEYWORDS_PLPGSQL, keywords.KEYWORDS_HQL, keywords.KEYWORDS_MSACCESS,
                       keywords.KEYWORDS_SNOWFLAKE, keywords.KEYWORDS_BIGQUERY, keywords.KEYWORDS]
        self.min_width = [re._parser.parse(rx, fl).getwidth()[0] for rx, fl, _ in active]

    def word_type(self, word):
        up = word.upper()
        for tbl in self.tables:
            if up in tbl:
                return tbl[up]
        return self.T.Name

    def tokens(self, text):
        """[(ttype, value)] per the property; raises AssertionError text on a zero-width rule."""
        out = []
        pos, n = 0, len(text)
        while pos < n:
            for rx, action in self.rules:
                m = rx.match(text, pos)
                if not m:
                    continue
                if m.end() <= pos:
                    return out, f'rule {rx.pattern!r} matched zero characters at {pos}'
                val = m.group()
                if action is self.kw.PROCESS_AS_KEYWORD:
                    out.append((self.word_type(val), val))
                else:
                    out.append((action, val))
                pos = m.end()
                break
            else:
                out.append((self.T.Error, text[pos]))
                pos += 1
        return out, None


def check_c01(ref, text, fn):
    """fn(text) -> iterable of (ttype, value)."""
    T = ref.T
    try:
        got = list(fn(text))
    except Exception as e:  # noqa
        return ('lexer-exception', crash_site(e), repr(e)[:200])
    for tt, val in got:
        if not isinstance(val, str) or val == '':
            return ('empty-token', tname(tt), repr(got)[:300])
    if ''.join(v for _, v in got) != text:
        return ('not-lossless', 'concat', repr(got)[:300])
    for tt, val in got:
        if tt is T.Error and len(val) != 1:
            return ('error-token-width', 'len%d' % len(val), repr(got)[:300])
    exp, prob = ref.tokens(text)
    if prob:
        return ('zero-width-rule', prob[:80], prob)
    if got != exp:
        for i, (g, e) in enumerate(zip(got, exp)):
            if g != e:
                return ('not-first-match', f'{tname(e[0])}->{tname(g[0])}',
                        f'token {i}: got {g!r}, expected {e!r}')
        return ('not-first-match', 'length', f'got {len(got)} tokens, expected {len(exp)}')
    return None


# ------------------------------------------------------------------ tree walking (own walk, not flatten())

def walk_leaves(node, out):
    for ch in node.tokens:
        if getattr(ch, 'is_group', False) or hasattr(ch, 'tokens'):
            walk_leaves(ch, out)
        else:
            out.append(ch)
    return out


def walk_nodes(node, path, out):
    """out gets (node, ancestors tuple) for every node below `node` (node itself excluded)."""
    for ch in node.tokens:
        out.append((ch, path))
        if hasattr(ch, 'tokens'):
            walk_nodes(ch, path + (ch,), out)
    return out


def has_group(stmts):
    for s in stmts:
        for ch in s.tokens:
            if hasattr(ch, 'tokens'):
                return True
    return False


# ------------------------------------------------------------------ C02

def check_c02(text, stmts):
    j = ''.join(str(s) for s in stmts)
    if not text.startswith(j):
        return ('join-not-prefix', 'parse', f'joined {j!r}')
    rest = text[len(j):]
    if rest.strip() != '':
        return ('lost-tail', 'parse', f'missing {rest!r}')
    for s in stmts:
        allnodes = [(s, ())] + walk_nodes(s, (s,), [])
        for node, _ in allnodes:
            if hasattr(node, 'tokens'):
                leaves = walk_leaves(node, [])
                cat = ''.join(lf.value for lf in leaves)
                if str(node) != cat:
                    return ('str-not-leaves', type(node).__name__, f'{str(node)!r} vs {cat!r}')
                fl = list(node.flatten())
                if len(fl) != len(leaves) or any(a is not b for a, b in zip(fl, leaves)):
                    return ('flatten-differs', type(node).__name__, repr(fl)[:200])
            else:
                if str(node) != node.value:
                    return ('str-not-value', tname(node.ttype), repr(node))
    return None


# ------------------------------------------------------------------ C03

def flat_statements(text):
    """Splitter-level statements without grouping."""
    from sqlparse.engine import FilterStack
    return list(FilterStack().run(text))


def ref_next(children, i, skip_ws, skip_cm, reverse):
    from sqlparse import sql
    rng = range(i - 1, -1, -1) if reverse else range(i + 1, len(children))
    for j in rng:
        tk = children[j]
        if skip_ws and is_ws_type(tk.ttype):
            continue
        if skip_cm and (is_comment_type(tk.ttype) or isinstance(tk, sql.Comment)):
            continue
        return j, tk
    return None, None


def check_c03(text, stmts, flat, nav=True):
    from sqlparse import tokens as T, sql
    if len(stmts) != len(flat):
        return ('statement-count', 'grouped-vs-flat', f'{len(stmts)} vs {len(flat)}')
    # all leaves, in order, are the lexer's own (type, value) pairs (a trailing whitespace-only rest may be missing)
    from sqlparse import lexer
    raw = list(lexer.tokenize(text))
    allleaves = [lf for s in stmts for lf in walk_leaves(s, [])]
    if len(allleaves) > len(raw) or any(not is_ws_type(tt) for tt, _ in raw[len(allleaves):]):
        return ('leaf-count', 'lexer', f'{len(allleaves)} leaves vs {len(raw)} lexer tokens')
    for lf, (tt, val) in zip(allleaves, raw):
        if lf.value != val:
            return ('leaf-value', 'lexer', f'{lf.value!r} vs lexer {val!r}')
        if lf.ttype is not tt and not (lf.ttype is T.Operator and tt in (T.Operator, T.Wildcard)):
            return ('leaf-type', f'lexer:{tname(tt)}->{tname(lf.ttype)}', repr(val))
    for s, f in zip(stmts, flat):
        leaves = walk_leaves(s, [])
        ftoks = f.tokens
        if len(leaves) != len(ftoks):
            return ('leaf-count', 'grouping', f'{len(leaves)} vs {len(ftoks)} in {str(s)!r}')
        for a, b in zip(leaves, ftoks):
            if a.value != b.value:
                return ('leaf-value', 'grouping', f'{a.value!r} vs {b.value!r}')
            if a.ttype is not b.ttype:
                if not (a.ttype is T.Operator and b.ttype in (T.Operator, T.Wildcard)):
                    return ('leaf-type', f'{tname(b.ttype)}->{tname(a.ttype)}', repr(a.value))
        if s.parent is not None:
            return ('parent', 'statement-has-parent', repr(s.parent))
        nodes = walk_nodes(s, (s,), [])
        seen = set()
        seen.add(id(s))
        for node, path in nodes:
            if id(node) in seen:
                return ('duplicate-node', type(node).__name__, repr(node))
            seen.add(id(node))
            if node.parent is not path[-1]:
                return ('parent', type(path[-1]).__name__ + '>' + type(node).__name__,
                        f'{node!r}.parent is {node.parent!r}, container is {path[-1]!r}')
        groups = [s] + [n for n, _ in nodes if hasattr(n, 'tokens')]
        for g in groups:
            if not g.tokens:
                return ('empty-group', type(g).__name__, repr(g))
            if g.value != str(g):
                return ('stale-value', type(g).__name__, f'{g.value!r} vs {str(g)!r}')
            if not g.is_group or g.ttype is not None:
                return ('group-flags', type(g).__name__, repr(g))
        if not nav:
            continue
        # navigation helpers against the explicit child lists
        for g in groups:
            ch = g.tokens
            for i, c in enumerate(ch):
                try:
                    if g.token_index(c) != i:
                        return ('token_index', type(g).__name__, f'{c!r}: {g.token_index(c)} != {i}')
                    # the optional search start, as an index and as a token, up to the token itself
                    for st in {0, i // 2, i}:
                        if g.token_index(c, st) != i:
                            return ('token_index', type(g).__name__ + ':start', f'{c!r} from {st}: {g.token_index(c, st)} != {i}')
                    if g.token_index(c, ch[i // 2]) != i:
                        return ('token_index', type(g).__name__ + ':start-token', f'{c!r} from token {i // 2}')
                except Exception as e:  # noqa
                    return ('token_index', type(g).__name__, repr(e))
            for i in range(len(ch)):
                for sw in (True, False):
                    for sc in (False, True):
                        exp = ref_next(ch, i, sw, sc, False)
                        got = g.token_next(i, skip_ws=sw, skip_cm=sc)
                        if got[0] != exp[0] or got[1] is not exp[1]:
                            return ('token_next', f'{type(g).__name__}', f'i={i} ws={sw} cm={sc}: {got} vs {exp}')
                        exp = ref_next(ch, i, sw, sc, True)
                        got = g.token_prev(i, skip_ws=sw, skip_cm=sc)
                        if got[0] != exp[0] or got[1] is not exp[1]:
                            return ('token_prev', f'{type(g).__name__}', f'i={i} ws={sw} cm={sc}: {got} vs {exp}')
        # offsets on the statement (every offset) and on every other group (every offset too)
        for g in groups:
            lv = walk_leaves(g, [])
            bounds = []
            p = 0
            for lf in lv:
                bounds.append((p, p + len(lf.value), lf))
                p += len(lf.value)
            k = 0
            for o in range(p + 1):
                while k < len(bounds) and bounds[k][1] <= o:
                    k += 1
                exp = bounds[k][2] if k < len(bounds) and bounds[k][0] <= o else None
                got = g.get_token_at_offset(o)
                if got is not exp:
                    return ('get_token_at_offset', type(g).__name__, f'offset {o}: {got!r} vs {exp!r}')
        # ancestry
        classes = (sql.Parenthesis, sql.Identifier, sql.IdentifierList, sql.Function, sql.Where,
                   sql.Statement, sql.Case, sql.Comparison, sql.Comment, sql.Operation)
        for node, path in nodes:
            for cls in classes:
                exp = any(isinstance(a, cls) for a in path)
                if node.within(cls) != exp:
                    return ('within', cls.__name__, f'{node!r} path {[type(a).__name__ for a in path]}')
            pid = set(id(a) for a in path)
            for g in groups:
                if node.has_ancestor(g) != (id(g) in pid):
                    return ('has_ancestor', type(g).__name__, f'{node!r} / {g!r}')
                if node.is_child_of(g) != (path[-1] is g):
                    return ('is_child_of', type(g).__name__, f'{node!r} / {g!r}')
    return None


# ------------------------------------------------------------------ C04

def locate_pieces(text, pieces):
    """None if the pieces tile the text modulo whitespace, else a description."""
    pos = 0
    n = len(text)
    for k, p in enumerate(pieces):
        if p == '' or p.strip() != p:
            return f'piece {k} {p!r} empty or not stripped'
        while pos < n and text[pos].isspace():
            pos += 1
        if not text.startswith(p, pos):
            return f'piece {k} {p!r} not at offset {pos} (next text {text[pos:pos + 20]!r})'
        pos += len(p)
    if text[pos:].strip() != '':
        return f'non-blank text after last piece: {text[pos:]!r}'
    return None


def check_c04(text, pieces, stmts, resplit):
    exp = [str(s).strip() for s in stmts]
    if pieces != exp:
        return ('split-parse-disagree', 'split', f'{pieces!r} vs {exp!r}')
    prob = locate_pieces(text, pieces)
    if prob:
        return ('not-a-partition', 'split', prob)
    pos = 0
    for p, st in zip(pieces, stmts):
        off = text.index(p, pos)
        pos = off + len(p)
        r = resplit(p)
        if r != [p]:
            # root cause: does strip() cut into a non-whitespace token of the statement?
            leaves = [lf for lf in walk_leaves(st, []) if not is_ws_type(lf.ttype)]
            sig = 'other'
            if leaves and leaves[-1].value != leaves[-1].value.rstrip():
                stripped = leaves[-1].value.rstrip()
                sig = f'strip-cuts-last-token:{tname(leaves[-1].ttype)}:{stripped[:4]}'
            elif leaves and leaves[0].value != leaves[0].value.lstrip():
                sig = f'strip-cuts-first-token:{tname(leaves[0].ttype)}'
            elif leaves and off > 0 and p[0] in '$[:?' and (text[off - 1].isalnum() or text[off - 1] in '_"$])'):
                # the piece starts directly behind a character that a look-behind of the dollar-quote /
                # bracket-name / placeholder rule rejects: in the script its first token is lexed differently
                from sqlparse import lexer
                alone = next(iter(lexer.tokenize(p)), None)
                if alone is not None and (tname(alone[0]), alone[1]) != (tname(leaves[0].ttype), leaves[0].value):
                    import re
                    how = 'glued-to-go-count' if re.search(r'(?i)\bgo\s+\d+$', text[:off]) else 'behind-lookbehind-char'
                    sig = f'piece-starts-{how}:{p[0]}'
            return ('piece-resplits', sig, f'{p!r} -> {r!r}')
    return None


# ------------------------------------------------------------------ C09 reference matcher

def _kw(tt, val, words):
    """exactly a Keyword token whose blank-normalised upper-cased text is one of `words`"""
    from sqlparse import tokens as T
    return tt is not None and tuple(tt) == tuple(T.Keyword) and ' '.join(val.upper().split()) in words


def _punct(tt, val, ch):
    from sqlparse import tokens as T
    return tt is not None and tuple(tt) == tuple(T.Punctuation) and val == ch


# kind name, opener predicate, closer predicate - in the order the property gives ("later kinds
# inside, never across, groups of earlier kinds")
C09_KINDS = [
    ('SquareBrackets', lambda t, v: _punct(t, v, '['), lambda t, v: _punct(t, v, ']')),
    ('Parenthesis', lambda t, v: _punct(t, v, '('), lambda t, v: _punct(t, v, ')')),
    ('Case', lambda t, v: _kw(t, v, ('CASE',)), lambda t, v: _kw(t, v, ('END',))),
    ('If', lambda t, v: _kw(t, v, ('IF',)), lambda t, v: _kw(t, v, ('END IF',))),
    ('For', lambda t, v: _kw(t, v, ('FOR', 'FOREACH')), lambda t, v: _kw(t, v, ('END LOOP',))),
    ('Begin', lambda t, v: _kw(t, v, ('BEGIN',)), lambda t, v: _kw(t, v, ('END',))),
]


def ref_spans(leaves):
    """Textbook staged stack matcher. leaves: [(ttype, value)]. Returns sorted [(kind, first, last)]."""
    def stage(items, is_open, is_close, kind):
        out, stack = [], []
        for it in items:
            if isinstance(it, tuple):
                # a group of an earlier kind is its own matching context; "inside" means strictly
                # between its opener and closer (its own END is not a candidate closer for BEGIN)
                inner = it[1]
                out.append((it[0], [inner[0]] + stage(inner[1:-1], is_open, is_close, kind) + [inner[-1]]))
                continue
            out.append(it)
            tt, val = leaves[it]
            if is_open(tt, val):
                stack.append(len(out) - 1)
            elif is_close(tt, val) and stack:
                o = stack.pop()
                grp = (kind, out[o:])
                del out[o:]
                out.append(grp)
        return out

    items = list(range(len(leaves)))
    for kind, is_open, is_close in C09_KINDS:
        items = stage(items, is_open, is_close, kind)
    spans = []

    def first(it):
        return it if not isinstance(it, tuple) else first(it[1][0])

    def last(it):
        return it if not isinstance(it, tuple) else last(it[1][-1])

    def collect(items):
        for it in items:
            if isinstance(it, tuple):
                spans.append((it[0], first(it), last(it)))
                collect(it[1])
    collect(items)
    return sorted(spans)


def real_spans(stmt):
    """(spans, shape problems) of the six matched-pair classes in the real tree."""
    from sqlparse import sql
    leaves = walk_leaves(stmt, [])
    idx = {id(lf): i for i, lf in enumerate(leaves)}
    kinds = {sql.SquareBrackets: 'SquareBrackets', sql.Parenthesis: 'Parenthesis', sql.Case: 'Case',
             sql.If: 'If', sql.For: 'For', sql.Begin: 'Begin'}
    preds = {k: (o, c) for k, o, c in C09_KINDS}
    spans, shape = [], []
    for node, _ in walk_nodes(stmt, (stmt,), []):
        kind = kinds.get(type(node))
        if kind is None:
            continue
        ch = list(node.tokens)
        # reading 4: ignore comments attached after the closer (and the whitespace between them)
        while ch and (is_ws_type(ch[-1].ttype) or is_comment_type(ch[-1].ttype)
                      or isinstance(ch[-1], sql.Comment)):
            ch.pop()
        if not ch:
            shape.append((kind, 'only-comments'))
            continue
        fl = walk_leaves(node, [])[0]
        ll = ch[-1] if not hasattr(ch[-1], 'tokens') else walk_leaves(ch[-1], [])[-1]
        spans.append((kind, idx[id(fl)], idx[id(ll)]))
        is_open, is_close = preds[kind]
        if hasattr(ch[0], 'tokens') or not is_open(ch[0].ttype, ch[0].value):
            shape.append((kind, 'first-child-not-opener:' + type(ch[0]).__name__))
        if hasattr(ch[-1], 'tokens') or not is_close(ch[-1].ttype, ch[-1].value):
            shape.append((kind, 'last-child-not-closer:' + type(ch[-1]).__name__))
    return sorted(spans), shape, leaves


def check_c09(stmts):
    for s in stmts:
        spans, shape, leaves = real_spans(s)
        exp = ref_spans([(lf.ttype, lf.value) for lf in leaves])
        if spans != exp:
            missing = [x for x in exp if x not in spans]
            extra = [x for x in spans if x not in exp]
            what = []
            for k, a, b in missing[:1]:
                what.append('missing:' + k)
            for k, a, b in extra[:1]:
                what.append('extra:' + k)
            toks = [lf.value for lf in leaves]
            return ('spans-differ', ','.join(what),
                    f'real {spans} reference {exp} over leaves {toks}')
        if shape:
            return ('shape', f'{shape[0][0]}:{shape[0][1]}', f'{shape} in {str(s)!r}')
    return None


# ------------------------------------------------------------------ C06 / C08 significant-token signature

import re as _re

_NL = _re.compile(r'\r\n|\r|\n')


def norm_comment(val):
    """the serializer's stated normalisation: line-end style and blanks before a line end"""
    return '\n'.join(ln.rstrip() for ln in _NL.split(val)).rstrip()


def sig(text, keep_types=False):
    """Significant-token signature by re-tokenising with the real lexer."""
    from sqlparse import lexer, tokens as T
    out = []
    for tt, val in lexer.tokenize(text):
        if is_ws_type(tt):
            continue
        if is_comment_type(tt):
            val = norm_comment(val)
        elif tt is T.Keyword.TZCast and "'" in val:
            # AT TIME ZONE '<text>': the words are a keyword, the quoted part is a literal (compared exactly)
            q = val.index("'")
            val = ' '.join(val[:q].split()) + ' ' + val[q:]
        elif tt_in(tt, T.Keyword) or tt_in(tt, T.Operator.Comparison) or tt_in(tt, T.Name.Builtin):
            val = ' '.join(val.split())
        out.append((tname(tt), val) if keep_types else val)
    return out


def first_diff(a, b):
    for i, (x, y) in enumerate(zip(a, b)):
        if x != y:
            return i, x, y
    if len(a) != len(b):
        i = min(len(a), len(b))
        return i, (a[i] if i < len(a) else None), (b[i] if i < len(b) else None)
    return None


# ------------------------------------------------------------------ C11 shape

def shape(stmts):
    """statement count, get_type per statement, tree of node classes / leaf types, whitespace leaves removed."""
    def node_shape(node):
        if hasattr(node, 'tokens'):
            return (type(node).__name__, tuple(s for s in (node_shape(c) for c in node.tokens) if s is not None))
        if is_ws_type(node.ttype):
            return None
        return tname(node.ttype)
    return tuple((s.get_type(), node_shape(s)) for s in stmts)


def shape_diff(a, b, path='root'):
    """human-readable first difference between two shapes"""
    if a == b:
        return None
    if isinstance(a, tuple) and isinstance(b, tuple) and len(a) == 2 and len(b) == 2 \
            and isinstance(a[0], str) and isinstance(b[0], str) and isinstance(a[1], tuple) and isinstance(b[1], tuple):
        if a[0] != b[0]:
            return f'{path}: {a[0]} vs {b[0]}'
        for i, (x, y) in enumerate(zip(a[1], b[1])):
            d = shape_diff(x, y, f'{path}/{a[0]}[{i}]')
            if d:
                return d
        return f'{path}/{a[0]}: {len(a[1])} vs {len(b[1])} children'
    if isinstance(a, tuple) and isinstance(b, tuple):
        for i, (x, y) in enumerate(zip(a, b)):
            d = shape_diff(x, y, f'{path}[{i}]')
            if d:
                return d
        return f'{path}: {len(a)} vs {len(b)} items'
    return f'{path}: {a!r} vs {b!r}'
