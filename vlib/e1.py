"""Generic driver for E1 string spaces: enumerate, evaluate, merge, report."""
import collections

from . import core, spaces


def run(space_list, evaluate, seed, bits=24, setup=None, extra_cases=None):
    """space_list: [(name, alphabet, max_len, joiner)].
    evaluate(text, frags, space_name, acc, state) does the oracle work and calls acc.case /
    acc.violation. setup() runs once per worker and returns `state`.
    extra_cases: optional [(name, [frag tuples])] explored in addition (seed-edit spaces)."""
    items = []
    for si, (name, alpha, depth, joiner) in enumerate(space_list):
        for part in spaces.partitions(alpha, depth):
            items.append((si, part))
    if extra_cases:
        for xi, (name, cases, joiner) in enumerate(extra_cases):
            for ch in core.chunked(cases, max(64, len(cases) // 5000)):
                items.append((-1 - xi, ch))
    items = core.rotate(items, seed)
    chunks = core.chunked(items, core.NPROC * 12)

    def work(chunk):
        state = setup() if setup else None
        acc = core.Acc(bits=bits)
        for si, part in chunk:
            if si >= 0:
                name, alpha, depth, joiner = space_list[si]
                for frags in spaces.expand(alpha, part):
                    evaluate(joiner.join(frags), frags, name, acc, state)
            else:
                name, _, joiner = extra_cases[-1 - si]
                for frags in part:
                    evaluate(joiner.join(frags), frags, name, acc, state)
        return acc.dump()

    merged = core.merge(core.pmap(work, chunks))
    sizes = collections.OrderedDict()
    for name, alpha, depth, joiner in space_list:
        sizes[name] = {'alphabet': len(alpha), 'max_fragments': depth,
                       'join': 'raw' if joiner == '' else repr(joiner),
                       'sequences': spaces.count(alpha, depth)}
    for name, cases, joiner in (extra_cases or []):
        sizes[name] = {'sequences': len(cases), 'join': 'raw' if joiner == '' else repr(joiner)}
    expected = sum(v['sequences'] for v in sizes.values())
    if merged['n'] != expected:
        raise RuntimeError(f'enumeration incomplete: {merged["n"]} evaluated, {expected} expected')
    return merged, sizes


def viol(kind, sig, detail, text, frags, space):
    return {'kind': kind, 'sig': sig, 'detail': detail, 'text': text, 'frags': list(frags),
            'space': space, 'size': len(frags) * 1000 + len(text)}
