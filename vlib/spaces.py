"""E1 string spaces: alphabets of fragments and the exhaustive enumerator (DESIGN 2.2).

A space is (alphabet, max_len, join): every sequence of 1..max_len fragments, joined raw ('')
or with one blank (' '). Partitioned by the first two fragments for the fork pool.
"""
import itertools

# lexical fragments forced to collide (C01, C02 ...)
LEX = ["'", '"', '`', '´', '$', '$a$', '--', '# ', '/*', '*/', '+', '\n', '\r', ' ', '\t',
       '\\', 'a', '_', '1', '0', 'x', 'e', '.', '-', ':', '=', '?', '%s', '@', '#', '[', ']', '(',
       ')', ';', ',', 'é', '×', '\x00', '\ud800', '*', '<', '|', 'E']

# code points that Python str methods, codecs and text tooling treat specially although the
# lexer's regex atoms do not distinguish them (the class partition of 2.1 is valid for the regex
# layer only) - crossed with a few structural fragments
SPC = ['\ufeff', '\u200b', '\u2060', '\xa0', '\u2028', '\u2029', '\x85', '\x1c', '\x1f', '\x0b', '\x0c',
       '\xad', '\ufffd', '\ufffe', '\U0010ffff', '\U0001f600', '\u0301', 'ß', 'ſ', 'İ', 'ı', '\u212a',
       'ﬁ', 'ａ', '（', '；', '＇', '٣', '²', '\u3000', '\u180e', '\x00', '\x7f', '\ud800', '\udfff',
       '\r', '\n', ' ', '\t', 'a', '1', ';', "'", '"', '(', ')', '-', '#', '.', 'go']

# structural fragments (C02-C04, C07, C09)
U = ['a', 'b', '1', "'s'", '"q"', ' ', '\n', '\r\n', '\t', '\x0c', ' ', ',', ';', '(', ')',
     '[', ']', '.', '*', '=', '+', '::', ':=', '--c\n', '/*c*/', 'select', 'from', 'where', 'and',
     'or', 'between', 'case', 'when', 'then', 'else', 'end', 'if', 'end if', 'for', 'end loop',
     'begin', 'as', 'in', 'values', 'over', 'join', 'on', 'order by', 'group by', 'having', 'limit',
     'union', 'insert', 'into', 'update', 'set', 'with', 'desc', 'null', 'not', 'create', 'table',
     'declare', 'date', 'interval', 'day', 'f(', 'go', 'like', 'mod', 'div']

# focused drivers carved out of U (one more fragment of depth than U)
D = {
    'D1': ['a', ' ', ',', '(', ')', '[', ']', 'case', 'end', 'if', 'end if', 'for', 'end loop',
           'begin', 'as', '::', '--c\n', '/*c*/', '=', '.', ':=', 'when', 'foreach', 'loop'],
    'D2': ['a', 'b', '"q"', '`z`', ' ', '\n', '.', ',', '[', ']', '1', '::', 'as', 'int', '(', ')',
           '*', 'desc', "'s'", ':=', ';', 'f('],
    'D3': ['a', '1', ' ', 'select', 'from', 'where', 'and', 'or', 'between', 'order by', 'group by',
           'having', 'limit', 'union', '=', '<', '+', '-', '*', ',', '(', ')', 'not', 'null', 'in',
           'like', 'join', 'on', 'into', 'returning', 'mod', 'div', 'is'],
    'D4': ['a', '1', ' ', '\n', '\r\n', '\t', '--c\n', '/*c*/', '/*+h*/', '--+h\n', '# c\n', ',', '(',
           ')', ';', '=', 'select', 'from', '.', '+', "'s'"],
    'D5': ['a', '1', ' ', ',', '(', ')', 'insert', 'into', 'values', 'update', 'set', 'delete',
           'from', 'with', 'as', 'select', 'create', 'table', 'f(', 'over', 'partition by', '=',
           ';', 'returning', 'int', 'not null'],
    'D6': ['a', '1', ' ', 'case', 'when', 'then', 'else', 'end', '=', ',', '(', ')', 'and', 'as',
           'select', 'x', '\n', '--c\n', 'end if', 'if'],
    'D7': ['a', ' ', ';', 'go', 'go 2', 'begin', 'end', 'create', 'declare', 'function', 'if',
           'end if', 'case', 'for', 'while', 'loop', 'end loop', '(', ')', '--c\n', '/*c*/', '\n',
           'select', '1', 'create or replace', 'procedure', 'as', '$$a;b$$', "';'"],
}


# split-relevant tokens only (statement-boundary automaton, C04/C05): long sequences are cheap here
SPL = [';', 'create', 'begin', 'end', 'declare', 'a', '(', ')', 'if', 'case', 'go', '\n', '--c\n', 'end if']


# tiny alphabets explored deep: the assignment pass re-visits swallowed tokens with stale indices (needs 7 tokens)
ASG = ['a', ',', ':=', ';', ' ', '=']
MID = ['a', ',', ':=', ';', '::', 'as', '.', '=', '(', ')']


def count(alpha, max_len):
    return sum(len(alpha) ** k for k in range(1, max_len + 1))


def partitions(alpha, max_len):
    """[(prefix_indices, rest_max)] covering every sequence of length 1..max_len exactly once."""
    n = len(alpha)
    parts = [((i,), 0) for i in range(n)]           # the length-1 sequences
    if max_len >= 2:
        for i in range(n):
            for j in range(n):
                parts.append(((i, j), max_len - 2))  # length 2..max_len with this 2-prefix
    return parts


def expand(alpha, part):
    """Yield fragment tuples of one partition."""
    prefix, rest = part
    pre = tuple(alpha[i] for i in prefix)
    yield pre
    for k in range(1, rest + 1):
        for tail in itertools.product(alpha, repeat=k):
            yield pre + tail


def seqs(alpha, max_len):
    for k in range(1, max_len + 1):
        yield from itertools.product(alpha, repeat=k)
