"""Stateless deviation-bounded explorer kernel (E2; the explore(prefix) idiom of iterative context
bounding applied to derivation / filler / respelling / option choices).

A *driver* is an ordinary function build(ctx) that calls ctx.choose(family, key, alternatives,
default) wherever it has a choice. Running it with no overrides gives the default case (the seed);
a *deviation* is one choice point answered with a non-default alternative. cases_within() yields
every case with at most `bound` deviations, each set of deviations exactly once (deviations are
only added at choice points met after the last deviated point, and a replay that meets different
choice points on the shared prefix is a hard error).
"""


class Divergence(RuntimeError):
    pass


class Ctx:
    def __init__(self, overrides, active, free=()):
        self.over = overrides
        self.active = active
        self.free = free
        self.points = []        # (family, key, n_alternatives, default_index, chosen_index)
        self.keys = set()

    def choose(self, family, key, alts, default=0):
        if family not in self.active:
            return alts[default]
        if key in self.keys:
            raise RuntimeError(f'choice key {key!r} used twice in one run')
        self.keys.add(key)
        idx = self.over.get(key, default)
        if not 0 <= idx < len(alts):
            raise Divergence(f'override {key}={idx} out of range ({len(alts)} alternatives)')
        self.points.append((family, key, len(alts), default, idx))
        return alts[idx]


def run(build, overrides, active):
    ctx = Ctx(overrides, active)
    case = build(ctx)
    unused = [k for k in overrides if k not in ctx.keys]
    if unused:
        raise Divergence(f'overrides never met: {unused}')
    return case, ctx


def _rec(build, active, bound, over, last_pos, d, parent_points, costs):
    case, ctx = run(build, over, active)
    if parent_points is not None:
        a = [(p[0], p[1], p[2], p[3]) for p in ctx.points[:last_pos + 1]]
        b = [(p[0], p[1], p[2], p[3]) for p in parent_points[:last_pos + 1]]
        if a != b:
            raise Divergence(f'prefix replay met different choice points: {a} vs {b}')
    yield over, case, d
    for pos in range(last_pos + 1, len(ctx.points)):
        fam, key, n, default, idx = ctx.points[pos]
        cost = costs.get(fam, 1)
        if d + cost > bound:
            continue
        for alt in range(n):
            if alt == default:
                continue
            o2 = dict(over)
            o2[key] = alt
            yield from _rec(build, active, bound, o2, pos, d + cost, ctx.points, costs)


def cases_within(build, active, bound, costs=None):
    """Yield (overrides, case, deviations_used)."""
    yield from _rec(build, active, bound, {}, -1, 0, None, costs or {})


def first_level(build, active, bound, costs=None):
    """Split the exploration tree for the fork pool: [(pos, key, alt)] of the root's children
    (plus the root itself as pos None)."""
    costs = costs or {}
    case, ctx = run(build, {}, active)
    out = [None]
    for pos, (fam, key, n, default, idx) in enumerate(ctx.points):
        if costs.get(fam, 1) > bound:
            continue
        for alt in range(n):
            if alt != default:
                out.append((pos, key, alt, costs.get(fam, 1)))
    return out, ctx.points


def subtree(build, active, bound, node, root_points, costs=None):
    """Enumerate the cases of one first-level subtree (node from first_level)."""
    costs = costs or {}
    if node is None:
        case, ctx = run(build, {}, active)
        yield {}, case, 0
        return
    pos, key, alt, cost = node
    yield from _rec(build, active, bound, {key: alt}, pos, cost, root_points, costs)
