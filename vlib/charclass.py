"""Code-point equivalence classes of the current lexer rule set (DESIGN 2.1).

Every character-consuming atom of every rule is extracted from the re._parser tree of the
rule source, compiled on its own with the lexer's flags and run over all 0x110000 code points.
Two code points with the same membership vector are indistinguishable to every rule (also in
look-arounds and \\b, which are built from the same atoms / the \\w category).
"""
import re
import sys

try:
    import re._parser as sre_parse
    import re._compiler as sre_compile
    import re._constants as C
except ImportError:  # pragma: no cover
    import sre_parse
    import sre_compile
    import sre_constants as C

FLAGS = re.IGNORECASE | re.UNICODE
MAXCP = 0x110000
_ALL = None


def all_chars():
    global _ALL
    if _ALL is None:
        _ALL = ''.join(map(chr, range(MAXCP)))
    return _ALL


def atoms_of(pattern, flags=FLAGS):
    """Yield (op, av) for every character-consuming atom in the pattern."""
    tree = sre_parse.parse(pattern, flags)
    out = []

    def walk(sp):
        for op, av in sp:
            if op in (C.LITERAL, C.NOT_LITERAL, C.ANY, C.IN, C.CATEGORY):
                out.append((op, av))
            elif op is C.BRANCH:
                for b in av[1]:
                    walk(b)
            elif op in (C.MAX_REPEAT, C.MIN_REPEAT, C.POSSESSIVE_REPEAT):
                walk(av[2])
            elif op is C.SUBPATTERN:
                walk(av[3])
            elif op in (C.ASSERT, C.ASSERT_NOT):
                walk(av[1])
            elif op is C.ATOMIC_GROUP:
                walk(av)
            elif op in (C.AT, C.GROUPREF):
                pass
            elif op is C.GROUPREF_EXISTS:
                walk(av[1])
                if av[2]:
                    walk(av[2])
            else:
                raise NotImplementedError(f'regex op {op} in {pattern!r}')
    walk(tree)
    return out


def _compile_atom(op, av, flags):
    st = sre_parse.State()
    st.flags = flags
    st.str = ''
    sp = sre_parse.SubPattern(st)
    sp.append((op, av))
    return sre_compile.compile(sp, flags)


def _atom_key(op, av):
    return repr((op, av))


def compute(patterns, flags=FLAGS):
    """Return (classes, info): classes is a list of sorted code-point lists... represented
    compactly as (representatives, size) per class, ordered by smallest code point."""
    atoms = {}
    for p in patterns:
        for op, av in atoms_of(p, flags):
            atoms.setdefault(_atom_key(op, av), (op, av))
    # always include the categories used by \b and friends
    for cat in (C.CATEGORY_WORD, C.CATEGORY_SPACE, C.CATEGORY_DIGIT):
        atoms.setdefault(_atom_key(C.IN, [(C.CATEGORY, cat)]), (C.IN, [(C.CATEGORY, cat)]))
    text = all_chars()
    sig = [0] * MAXCP
    bit = 0
    for key in sorted(atoms):
        op, av = atoms[key]
        pat = _compile_atom(op, av, flags)
        hits = pat.findall(text)
        if len(hits) * 2 > MAXCP:
            # record the complement: same partition, fewer updates
            members = [ord(c) for c in pat.sub('', text)]
        else:
            members = [ord(c) for c in hits]
        b = 1 << bit
        for c in members:
            sig[c] |= b
        bit += 1
    groups = {}
    for c in range(MAXCP):
        groups.setdefault(sig[c], []).append(c)
    classes = sorted(groups.values(), key=lambda g: g[0])
    return classes, {'atoms': len(atoms), 'classes': len(classes)}


def _printable_first(g):
    """Pick representatives: prefer the smallest code point, plus a second distinct one."""
    reps = [g[0]]
    if len(g) > 1:
        reps.append(g[1] if len(g) < 4 else g[len(g) // 2])
    return reps


def representatives(patterns, flags=FLAGS):
    """(one representative per class, [reps] per class, info). Cached on disk keyed by the rule
    sources, the flags and the interpreter's Unicode database version."""
    import hashlib
    import json
    import os
    import unicodedata
    key = hashlib.sha256(repr((list(patterns), int(flags), unicodedata.unidata_version,
                               sys.version_info[:2])).encode()).hexdigest()[:20]
    cdir = os.path.join(os.path.dirname(os.path.dirname(os.path.abspath(__file__))), '.cache')
    cpath = os.path.join(cdir, f'charclass-{key}.json')
    if os.path.exists(cpath):
        try:
            with open(cpath) as fh:
                d = json.load(fh)
            return [chr(c) for c in d['one']], [[chr(c) for c in r] for r in d['two']], d['info']
        except Exception:
            pass
    classes, info = compute(patterns, flags)
    one = [chr(g[0]) for g in classes]
    two = [[chr(c) for c in _printable_first(g)] for g in classes]
    info['class_sizes'] = [len(g) for g in classes]
    try:
        os.makedirs(cdir, exist_ok=True)
        tmp = cpath + '.%d' % os.getpid()
        with open(tmp, 'w') as fh:
            json.dump({'one': [ord(c) for c in one], 'two': [[ord(c) for c in r] for r in two],
                       'info': info}, fh)
        os.replace(tmp, cpath)
    except OSError:
        pass
    return one, two, info


if __name__ == '__main__':
    sys.path.insert(0, '/repo')
    from sqlparse import keywords
    import time
    t = time.time()
    one, two, info = representatives([rx for rx, _ in keywords.SQL_REGEX])
    print(info['atoms'], info['classes'], round(time.time() - t, 2))
    print([(hex(ord(c)), n) for c, n in zip(one, info['class_sizes'])])
