"""Generic driver for E2 derivation spaces: seeds x deviation-bounded choices x option sets."""
import collections

from . import core, explore, grammar


def run(seed_indices, active, bound, evaluate, seed, setup=None, costs=None, bits=24,
        build=None):
    """evaluate(builder, text, overrides, seed_name, acc, state) is called once per case."""
    build = build or grammar.build_stmt
    tasks = []
    roots = {}
    for si in seed_indices:
        nodes, pts = explore.first_level(lambda c, si=si: build(c, si), active, bound, costs)
        roots[si] = pts
        for nd in nodes:
            tasks.append((si, nd))
    tasks = core.rotate(tasks, seed)
    chunks = core.chunked(tasks, core.NPROC * 10)

    def work(chunk):
        state = setup() if setup else None
        acc = core.Acc(bits=bits)
        for si, nd in chunk:
            name = grammar.SEEDS[si][0] if isinstance(si, int) and si < len(grammar.SEEDS) else str(si)
            for over, b, d in explore.subtree(lambda c, si=si: build(c, si), active, bound, nd, roots[si], costs):
                acc.extra['cases'] += 1
                acc.extra[f'cases_dev{d}'] += 1
                evaluate(b, over, name, d, acc, state)
        return acc.dump()

    merged = core.merge(core.pmap(work, chunks))
    info = {'seeds': len(seed_indices), 'families': sorted(active), 'deviation_bound': bound,
            'first_level_subtrees': len(tasks),
            'cases_by_deviations': {k: v for k, v in sorted(merged['extra'].items()) if k.startswith('cases_dev')}}
    return merged, info


def viol(kind, sig, detail, text, over, seed_name, d, opts=None):
    v = {'kind': kind, 'sig': sig, 'detail': detail, 'text': text, 'overrides': over, 'seed': seed_name,
         'size': d * 100000 + len(text) + (10 * len(opts) if opts else 0)}
    if opts is not None:
        v['opts'] = opts
    return v


def script_texts(tier):
    """multi-statement scripts: ordered pairs of seed statements (quick: the 14 shortest; thorough: all) x every
    separator filler x two final fillers, plus triples of the 6 shortest with the default separator"""
    import itertools
    texts = []
    for si in range(len(grammar.SEEDS)):
        b, _ = explore.run(lambda c, si=si: grammar.build_stmt(c, si), {}, set())
        texts.append(b.text())
    pool = texts if tier == 'thorough' else sorted(texts, key=len)[:9]
    out = []
    for a, b in itertools.product(pool, repeat=2):
        for sep in grammar.SEPS:
            for fin in (';', ''):
                out.append(a + sep + b + fin)
    for tri in itertools.product(sorted(texts, key=len)[:6 if tier == 'thorough' else 4], repeat=3):
        out.append('; '.join(tri) + ';')
        out.append(';\n-- c\n'.join(tri))
    return out


def run_texts(texts, evaluate, seed, setup=None, bits=22):
    """evaluate(text, acc, state) over a plain list of texts (fork pool, deterministic merge)"""
    texts = core.rotate(texts, seed)

    def work(chunk):
        state = setup() if setup else None
        acc = core.Acc(bits=bits)
        for t in chunk:
            evaluate(t, acc, state)
        return acc.dump()
    return core.merge(core.pmap(work, core.chunked(texts, core.NPROC * 8)))
