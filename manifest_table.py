NOTES = ('All checks are bounded exhaustive explorations that run the real code of /repo\'s working tree '
         '(VERIF_REPO overrides the tree for mutant runs). Known genuine defects are listed in '
         'known_findings.json and printed as KNOWN-FINDING lines; see DESIGN.md.')
NOT_YET = {}

add('C01', 'exploration', 'bounded exhaustive enumeration of strings over code-point equivalence classes',
    'Every string up to 3 (quick) / 4 (thorough) code-point classes and lexical fragments is tokenised by the real lexer and compared token-by-token with a reference first-match-wins scan; exhaustive within the bound, which covers every Python str of that length for the regex layer.',
    'Trusted: CPython re; the class-partition argument (DESIGN 2.1); longer strings only by locality of the scan loop.',
    'DESIGN.md 4/C01')

_E1 = 'Trusted: CPython; the boring reference oracles in vlib/oracles.py; inputs longer than the fragment bound are covered only by the locality argument (DESIGN 7).'
add('C02', 'exploration', 'bounded exhaustive enumeration of fragment strings through parse()',
    'Every sequence of up to 3-5 structural/lexical fragments (raw and blank-joined) is parsed by the real code and the round-trip / str-equals-leaves / flatten oracle is evaluated on every node; exhaustive within the bound.',
    _E1, 'DESIGN.md 4/C02')
add('C03', 'exploration', 'bounded exhaustive enumeration of fragment strings, tree invariants + reference navigation',
    'Same spaces as C02; on every tree: leaves == ungrouped token stream, parent pointers, non-empty groups, no sharing, cached values, and every navigation helper for every index/flag/offset against an explicit walk; exhaustive within the bound.',
    _E1, 'DESIGN.md 4/C03')
add('C04', 'exploration', 'bounded exhaustive enumeration of fragment strings through split() and parse(), pieces re-fed',
    'Same spaces as C02 with the statement-boundary driver deepened; split/parse agreement, tiling of the input modulo whitespace and re-splitting of every piece, on every input; exhaustive within the bound.',
    _E1, 'DESIGN.md 4/C04')
add('C09', 'exploration', 'bounded exhaustive enumeration of bracket/block fragment strings against a reference stack matcher',
    'Every sequence of up to 4-6 bracket/block/middle-token fragments (balanced or not) is parsed and the six matched-pair node classes are compared, as span sets and in child-level shape, with a staged textbook stack matcher; reference and implementation are compared on every input; exhaustive within the bound.',
    _E1, 'DESIGN.md 4/C09')
add('C07', 'exploration', 'bounded exhaustive enumeration of fragment strings x option sets (deviation-bounded) through every entry point and accessor',
    'Every fragment sequence up to the bound goes through parse + every accessor on every node + split; fragment sequences and option deviations share one budget for format() (long inputs x one option set per filter, short inputs x every option set within 1-3 deviations); every documented option x invalid-value menu with an instrumented input. Exhaustive within the stated bounds.',
    _E1 + ' Documented options per docs/source/api.rst; right_margin excluded (unimplemented by design).', 'DESIGN.md 4/C07')
_E2 = 'Trusted: CPython; the verification grammar of DESIGN 3 (vlib/grammar.py) as the program space; the real lexer as judge of token boundaries; everything is bounded by the deviation count d.'
add('C06', 'exploration', 'deviation-bounded exhaustive enumeration of grammar derivations x comment placements x layout option sets',
    'Every case within d deviations (derivation alternative, comment of 8 kinds in any gap, literal/name spelling, uniform respelling style, gap toggle) of 40 seed derivations, crossed with every layout option set within k option deviations (thorough: the full 776-set layout product per seed), is formatted by the real code; the significant-token signature and statement count of the output are compared with the input. Exhaustive within d/k.',
    _E2, 'DESIGN.md 4/C06')
add('C08', 'exploration', 'deviation-bounded exhaustive enumeration of grammar derivations x comment placements x targeted option sets against a reference transformer',
    'Every case within d deviations of 40 seed derivations (derivation alternative, comment of 12 kinds in any gap or at a statement edge, literal/name spelling, uniform style) crossed with strip_comments / keyword_case / identifier_case / truncate_strings alone, in pairs and with layout options; the expected token signature is computed from the input by a reference transformer and compared with the re-lexed output; idempotence on exact text. Exhaustive within d.',
    _E2, 'DESIGN.md 4/C08')
add('C10', 'exploration', 'deviation-bounded exhaustive enumeration of grammar derivations x the three normal-form options (reindent x every sub-option combination), postconditions on the re-lexed output',
    'Every case within d deviations of 40 seed derivations crossed with strip_whitespace, use_space_around_operators, and reindent under every sub-option combination (288); the normal-form postconditions are checked on the re-tokenised output and the two fixed points on exact text. Exhaustive within d.',
    _E2, 'DESIGN.md 4/C10')
add('C11', 'exploration', 'deviation-bounded exhaustive enumeration of respellings (whitespace, keyword-inner whitespace, keyword case, uniform styles) of grammar derivations and of scripts',
    'For every seed derivation and derivations within d deviations, every respelling with up to d choices (one gap, one multi-word keyword, one keyword case, or one of 10 uniform styles) is parsed and its shape (statement count, types, node classes, leaf types) compared with the base spelling; plus every pair/triple of plain and procedural statements under every spelling of the whitespace after each semicolon. Exhaustive within d.',
    _E2, 'DESIGN.md 4/C11')
add('C12', 'exploration', 'exhaustive enumeration of the full product of identifier spellings x quoting x qualifier x alias x whitespace x context',
    'The complete product (names incl. non-ASCII and escaped quotes x 3 quotings x 5 qualifiers x 8 alias forms x 4 whitespace spellings x 20 syntactic contexts x neighbour items) is parsed and the five accessors of the Identifier covering the written reference are compared with the written parts. Exhaustive (full product, both tiers).',
    'Trusted: CPython; the product dimensions in checks/c12.py as the space; the period is written without blanks.', 'DESIGN.md 4/C12')
add('C13', 'exploration', 'exhaustive enumeration of six full products (WHERE extent, lists, calls, CASE, comparisons, typed literals) with ground truth from construction',
    'Six full products whose expected node texts are known from how each input was built; Where / IdentifierList.get_identifiers / Function.get_parameters / Case.get_cases / Comparison.left,right / TypedLiteral are compared with the written parts on every case. Exhaustive (full products).',
    'Trusted: CPython; the item, condition, operand and argument forms listed in checks/c13.py as the grammar.', 'DESIGN.md 4/C13')
add('C18', 'exploration', 'exhaustive enumeration of the full product head keyword x prefix x casing x continuation (+ WITH/CTE forms)',
    'Every single-word DML/DDL keyword of the nine tables, CREATE OR REPLACE under every inner-whitespace spelling, non-DML heads and WITH [RECURSIVE] statements with 1-3 CTEs, crossed with 13 whitespace/comment prefixes, 4 casings and 31 continuations; get_type() is compared with the written head. Exhaustive (full product).',
    'Trusted: CPython; head words are read from the keyword tables of the tree under test.', 'DESIGN.md 4/C18')
add('C17', 'model_checking', 'explicit-state BFS to fixpoint over the product (reference push-down recogniser x real StatementSplitter), every transition executed on the real process(); every model trace replayed through split()/parse()',
    'All reachable states of the product of a reference push-down recogniser of the procedural grammar (stack depth <= 3 quick / 4 thorough) with the real StatementSplitter attribute tuple are explored to fixpoint; each transition feeds the real lexer tokens of one event through the real process(); invariant on every semicolon edge: real split decision == reference. The BFS-shortest trace to every product state, completed to a whole script, is rendered to SQL (two spellings) and run through sqlparse.split/parse (traces_validated_against_impl).',
    'Trusted: CPython; the procedural grammar as written in vlib/splitmodel.py; conditions/headers/simple statements abstracted to name tokens; states whose real counters drift beyond the bound are checked by their shortest completion instead of being expanded.', 'DESIGN.md 4/C17')
add('C05', 'exploration', 'exhaustive enumeration of scripts (seed pairs/triples x separator fillers), of opaque-region bodies (all bodies up to a length over a body alphabet) and of the plain-statement product automaton',
    'Every ordered pair (and triple of short ones) of the seed statements under every separator/final filler; every statement within one deviation of a seed as first/second statement; 8 region kinds x every body of <= 3-4 fragments lacking the terminator x 8 host positions with the expected pieces known by construction; plus all reachable states of the (reference x real splitter) product restricted to plain statements with ";" inside parentheses. Exhaustive within the bounds.',
    _E2, 'DESIGN.md 4/C05')
add('C14', 'exploration', 'bounded exhaustive enumeration of region bodies over code-point class representatives x delimiter context pairs; every dictionary word x casings x contexts',
    '8 region kinds x every body of <= 2-3 fragments over one representative per code-point class of the current rule set (plus multi-character fragments) x every (left, right) pair of 18 delimiter contexts; every single-word key of the nine keyword dictionaries x casings x contexts, expected type from an own first-table-wins lookup in the documented order. Exhaustive within the body bound; covers every Python str body of that length for the regex layer.',
    'Trusted: CPython re; the class-partition argument (DESIGN 2.1); delimiter set per DESIGN 4.0 reading 5.', 'DESIGN.md 4/C14')
add('C16', 'model_checking', 'explicit-state exploration of the path-distinguishing self-product of each lexer rule\'s NFA (model generated from the rule source, conformance-checked exhaustively against re)',
    'For every rule of the current table an epsilon-NFA is derived mechanically from the re parse tree; after multiplicity-preserving epsilon elimination all reachable states of its self-product with a divergence bit are explored from every (q,q,0); exponential ambiguity iff (q,q,1) is reachable. The model is bound to the code by checking every word over the rule\'s own code-point classes up to length 5-6 against re (traces_validated_against_impl), and every loop state yields a pump string that the real tokenizer must finish within a CPU budget (in a killable child process).',
    'Trusted: CPython re as a backtracking matcher over the modelled paths; look-arounds/back-references are over-approximated (only add paths); timing uses CPU time, a wide margin and a re-measurement.', 'DESIGN.md 4/C16')
add('C20', 'model_checking', 'stateless preemption-bounded exploration of real threads under a cooperative scheduler (sys.settrace, scheduler-aware lock) + explicit-state exploration of call histories over a digest of the global state',
    'All interleavings of 2-3 real threads through lexer creation/initialisation (scheduling points at every line, and at every opcode, of lexer.py outside the scan loop; preemption bound 1-3) and of pairs of concurrent parse/split/format calls (function-entry granularity, bound 1-2); every history of <= 3-4 operations from a 15-operation alphabet, each in a forked child, plus BFS over the digest-quotient graph of global states to fixpoint; in every state a probe suite must return what a fresh interpreter returns. Every model run executes the implementation itself.',
    'Trusted: CPython with the GIL (no sub-bytecode interleavings); the digest coverage list in vlib/digest.py; re\'s own pattern cache is outside.', 'DESIGN.md 4/C20')
add('C15', 'fault_enumeration', 'exhaustive enumeration of stack head-room values x nesting constructs x depths x entry points x option sets, one forked child per case',
    'For every nesting construct, depth, entry point and option set, EVERY head-room value in a window above the measured H_min (recursion limit = frame depth at the call + H) is tried in its own forked child, which moves the overflow point through every frame of every recursive routine; plus the first call of the process under every head-room from 1 (cold lexer) and head-rooms below H_min. Outcome must be a well-formed result or SQLParseError, the child must exit 0, and a later ordinary call must give the reference answers.',
    'Trusted: CPython recursion accounting; DESIGN 4.0 reading 6; depths <= 250 (grouping is super-linear in depth).', 'DESIGN.md 4/C15')
