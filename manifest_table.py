NOTES = ('All checks are bounded exhaustive explorations that run the real code of /repo\'s working tree '
         '(VERIF_REPO overrides the tree for mutant runs). Known genuine defects are listed in '
         'known_findings.json and printed as KNOWN-FINDING lines; see DESIGN.md.')
NOT_YET = {}

add('C01', 'exploration', 'bounded exhaustive enumeration of strings over code-point equivalence classes',
    'Every string up to 3 (quick) / 4 (thorough) code-point classes and lexical fragments is tokenised by the real lexer and compared token-by-token with a reference first-match-wins scan; exhaustive within the bound, which covers every Python str of that length for the regex layer.',
    'Trusted: CPython re; the class-partition argument (DESIGN 2.1); longer strings only by locality of the scan loop.',
    'DESIGN.md 4/C01')
